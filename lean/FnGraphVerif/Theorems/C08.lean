/-
  Theorems/C08.lean — interruption bounds.  `InterruptibleStream` is analysed alone first (for
  EVERY sequence of signal arrivals and underlying-stream answers), then composed with the run
  protocol and with the `stream*_interruptible` poll model.
-/
import FnGraphVerif.Model.Settle
import FnGraphVerif.Model.StreamPoll
import FnGraphVerif.Proofs.IntrCompose
namespace FG

/-- what one `InterruptibleStream` sees: a signal is placed in its channel, or it is polled while
    the underlying stream would answer `u` -/
inductive IEv
  | signal
  | poll (u : Under)
  deriving DecidableEq, Repr

/-- ghost run of the machine: `yN` / `yI` count the `NoInterrupt(item)` / `Interrupted(Some item)`
    answers given since the first signal was sent; `outs` are all answers -/
structure IG where
  m : IM := {}
  everSent : Bool := false
  yN : Nat := 0
  yI : Nat := 0
  outs : List Out := []

def istep (st : Strat) (g : IG) : IEv → IG
  | .signal => { g with m := { g.m with sent := true }, everSent := true }
  | .poll u =>
    let r := pollNext st g.m u
    { g with m := r.1,
             yN := if g.everSent && r.2 = .noInt then g.yN + 1 else g.yN,
             yI := if g.everSent && r.2 = .intSome then g.yI + 1 else g.yI,
             outs := g.outs ++ [r.2] }

def irun (st : Strat) (evs : List IEv) : IG := evs.foldl (istep st) {}

/-! ### auxiliary facts about the ghost run -/

/-- an invariant of `istep` holds after every event sequence -/
theorem ifold_inv (st : Strat) (P : IG → Prop) (hstep : ∀ g e, P g → P (istep st g e))
    (evs : List IEv) (g : IG) (h0 : P g) : P (evs.foldl (istep st) g) := by
  induction evs generalizing g with
  | nil => exact h0
  | cons e evs ih => exact ih _ (hstep g e h0)

theorem irun_cons (st : Strat) (e : IEv) (evs : List IEv) :
    irun st (e :: evs) = evs.foldl (istep st) (istep st {} e) := rfl

theorem istep_poll_sum (st : Strat) (g : IG) (u : Under) :
    (istep st g (.poll u)).yN + (istep st g (.poll u)).yI =
      if g.everSent && (pollNext st g.m u).2.isItem then g.yN + g.yI + 1 else g.yN + g.yI := by
  simp only [istep]
  cases g.everSent <;> cases (pollNext st g.m u).2 <;> simp [Out.isItem] <;> omega

theorem invF_irun {st : Strat} (hst : st = .finish ∨ st = .pollN 0) (evs : List IEv) (g : IG)
    (h0 : InvF g.m g.everSent g.yN g.yI) :
    InvF (evs.foldl (istep st) g).m (evs.foldl (istep st) g).everSent
      (evs.foldl (istep st) g).yN (evs.foldl (istep st) g).yI := by
  refine ifold_inv st (fun g => InvF g.m g.everSent g.yN g.yI) ?_ evs g h0
  intro g e h
  cases e with
  | signal => exact invF_signal h
  | poll u => exact invF_poll hst u h

theorem invPre_irun {st : Strat} (hst : st = .finish ∨ st = .pollN 0) (evs : List IEv) (g : IG)
    (h0 : InvF g.m g.everSent g.yN g.yI ∧ InvPre g.m g.everSent g.yI) :
    InvF (evs.foldl (istep st) g).m (evs.foldl (istep st) g).everSent
      (evs.foldl (istep st) g).yN (evs.foldl (istep st) g).yI ∧
    InvPre (evs.foldl (istep st) g).m (evs.foldl (istep st) g).everSent
      (evs.foldl (istep st) g).yI := by
  refine ifold_inv st (fun g => InvF g.m g.everSent g.yN g.yI ∧ InvPre g.m g.everSent g.yI)
    ?_ evs g h0
  intro g e h
  cases e with
  | signal => exact ⟨invF_signal h.1, invPre_signal h.2⟩
  | poll u => exact ⟨invF_poll hst u h.1, invPre_poll hst u h.1 h.2⟩

theorem invN_irun {n : Nat} (hn : 1 ≤ n) (evs : List IEv) (g : IG)
    (h0 : InvN n g.m g.everSent (g.yN + g.yI)) :
    InvN n (evs.foldl (istep (.pollN n)) g).m (evs.foldl (istep (.pollN n)) g).everSent
      ((evs.foldl (istep (.pollN n)) g).yN + (evs.foldl (istep (.pollN n)) g).yI) := by
  refine ifold_inv (.pollN n) (fun g => InvN n g.m g.everSent (g.yN + g.yI)) ?_ evs g h0
  intro g e h
  cases e with
  | signal => exact invN_signal h
  | poll u =>
    show InvN n (pollNext (.pollN n) g.m u).1 g.everSent
      ((istep (.pollN n) g (.poll u)).yN + (istep (.pollN n) g (.poll u)).yI)
    rw [istep_poll_sum]
    exact invN_poll hn u h

/-- **C08** `FinishCurrent` / `PollNextN(0)`: after the signal no plain item, at most one
    `Interrupted(Some _)` item — and none at all when the signal was already pending at the start -/
theorem finish_bound (st : Strat) (hst : st = .finish ∨ st = .pollN 0) (evs : List IEv) :
    (irun st evs).yN = 0 ∧ (irun st evs).yI ≤ 1 ∧
    (irun st (.signal :: evs)).yN = 0 ∧ (irun st (.signal :: evs)).yI = 0 := by
  have h1 := invF_irun hst evs {} invF_init
  have h2 := invPre_irun hst evs (istep st {} .signal)
    ⟨invF_signal invF_init, by constructor <;> simp [istep]⟩
  rw [irun_cons]
  exact ⟨h1.noPlain, h1.bound, h2.1.noPlain, h2.2.none⟩

/-- non-vacuity: the signal arrives while the underlying stream is `Pending`; the one item that was
    being waited for is handed on as `Interrupted(Some _)`, nothing after it -/
example : (irun .finish [.poll .item, .poll .pending, .signal, .poll .pending, .poll .item,
    .poll .item]).outs = [.noInt, .pending, .pending, .intSome, .endd] := by decide
example : (irun .finish [.poll .item, .poll .pending, .signal, .poll .pending, .poll .item,
    .poll .item]).yI = 1 := by decide
example : (irun (.pollN 0) [.poll .pending, .signal, .poll .item, .poll .item]).yI = 1 := by decide
example : (irun .finish [.signal, .poll .item, .poll .item]).outs = [.intNone, .endd] := by decide

/-- **C08** `PollNextN(n)`, `n ≥ 1`: at most `n` items after the signal (also when pre-signalled) -/
theorem pollN_bound (n : Nat) (hn : 1 ≤ n) (evs : List IEv) :
    (irun (.pollN n) evs).yN + (irun (.pollN n) evs).yI ≤ n := by
  exact (invN_irun hn evs {} (invN_init n hn)).bound

/-- non-vacuity: the bound is attained, both pre-signalled and signalled while `Pending` -/
example : (irun (.pollN 2) [.signal, .poll .item, .poll .item, .poll .item]).outs
    = [.noInt, .noInt, .intNone] := by decide
example : (irun (.pollN 2) [.signal, .poll .item, .poll .item, .poll .item]).yN = 2 := by decide
example : (irun (.pollN 2) [.poll .pending, .signal, .poll .pending, .poll .item, .poll .item,
    .poll .item]).outs = [.pending, .pending, .noInt, .noInt, .intNone] := by decide
example : (irun (.pollN 2) [.poll .pending, .signal, .poll .pending, .poll .item, .poll .item,
    .poll .item]).yN + (irun (.pollN 2) [.poll .pending, .signal, .poll .pending, .poll .item,
    .poll .item, .poll .item]).yI = 2 := by decide

/-- invariant behind `ends_after_interrupted` -/
def EndsInv (g : IG) : Prop :=
  (g.m.ian = false → ∀ o ∈ g.outs, o ≠ Out.intSome ∧ o ≠ Out.intNone) ∧
  (∀ i j : Nat, i < j → (g.outs[i]? = some Out.intSome ∨ g.outs[i]? = some Out.intNone) →
    ∀ o, g.outs[j]? = some o → o = Out.endd)

theorem endsInv_step (st : Strat) (g : IG) (e : IEv) (h : EndsInv g) : EndsInv (istep st g e) := by
  obtain ⟨h1, h2⟩ := h
  cases e with
  | signal => exact ⟨h1, h2⟩
  | poll u =>
    show EndsInv { g with m := (pollNext st g.m u).1, yN := _, yI := _,
                          outs := g.outs ++ [(pollNext st g.m u).2] }
    unfold EndsInv
    simp only
    by_cases hian : g.m.ian = true
    · rw [pollNext_ian hian]
      refine ⟨fun hf => absurd hf (by simp [hian]), ?_⟩
      intro i j hij hi o ho
      rcases Nat.lt_trichotomy j g.outs.length with hj | hj | hj
      · rw [List.getElem?_append_left hj] at ho
        rw [List.getElem?_append_left (by omega)] at hi
        exact h2 i j hij hi o ho
      · subst hj
        simp at ho
        exact ho.symm
      · rw [List.getElem?_eq_none (by simp; omega)] at ho
        exact absurd ho (by simp)
    · have hian' : g.m.ian = false := by simpa using hian
      have h1' := h1 hian'
      refine ⟨?_, ?_⟩
      · intro hr o ho
        rcases List.mem_append.1 ho with ho | ho
        · exact h1' o ho
        · simp only [List.mem_singleton] at ho
          subst ho
          constructor
          · intro hc
            have := pollNext_int_ian st g.m u (Or.inl hc)
            simp [hr] at this
          · intro hc
            have := pollNext_int_ian st g.m u (Or.inr hc)
            simp [hr] at this
      · intro i j hij hi o ho
        rcases Nat.lt_or_ge i g.outs.length with hil | hil
        · rw [List.getElem?_append_left hil] at hi
          rcases hi with hi | hi
          · exact absurd rfl (h1' _ (List.mem_of_getElem? hi)).1
          · exact absurd rfl (h1' _ (List.mem_of_getElem? hi)).2
        · rw [List.getElem?_eq_none (by simp; omega)] at ho
          exact absurd ho (by simp)

/-- **C08**: after an `Interrupted(..)` answer the stream only ever answers end-of-stream -/
theorem ends_after_interrupted (st : Strat) (evs : List IEv) (i j : Nat) (hij : i < j)
    (hi : (irun st evs).outs[i]? = some .intSome ∨ (irun st evs).outs[i]? = some .intNone)
    (o : Out) (hj : (irun st evs).outs[j]? = some o) : o = .endd := by
  have h : EndsInv (irun st evs) :=
    ifold_inv st EndsInv (endsInv_step st) evs {} ⟨by simp, by simp⟩
  exact h.2 i j hij hi o hj

/-- non-vacuity: an `Interrupted(..)` answer does occur and is followed by further answers -/
example : (irun .finish [.signal, .poll .item, .poll .item, .poll .pending]).outs
    = [.intNone, .endd, .endd] := by decide
example : (irun (.pollN 1) [.poll .pending, .signal, .poll .item, .poll .item, .poll .item]).outs
    = [.pending, .noInt, .intNone, .endd] := by decide

/-- **C08** `NonInterruptible` / `IgnoreInterruptions`: the wrapper is transparent whatever signals arrive -/
theorem noninterrupting_transparent (st : Strat) (hst : st = .non ∨ st = .ignore) (evs : List IEv) (u : Under) :
    (pollNext st (irun st evs).m u).2 = (match u with | .item => .noInt | .none => .endd | .pending => .pending) := by
  have h : (irun st evs).m.sig = false ∧ (irun st evs).m.ian = false := by
    refine ifold_inv st (fun g => g.m.sig = false ∧ g.m.ian = false) ?_ evs {} ⟨rfl, rfl⟩
    intro g e hg
    cases e with
    | signal => exact hg
    | poll u =>
      have := pollNext_transparent hst hg.1 hg.2 u
      exact ⟨this.1, this.2.1⟩
  have h3 := (pollNext_transparent hst h.1 h.2 u).2.2
  rw [h3]
  cases u <;> rfl

/-- non-vacuity: signals do arrive, and the answers are the underlying ones -/
example : (irun .ignore [.signal, .poll .item, .poll .pending, .signal, .poll .item,
    .poll .none]).outs = [.noInt, .pending, .noInt, .endd] := by decide
example : (irun .non [.signal, .poll .item, .poll .pending, .signal, .poll .item,
    .poll .none]).outs = [.noInt, .pending, .noInt, .endd] := by decide

/-! ### composition with the run protocol -/

/-- example configurations for the non-vacuity checks: a chain `0 → 1 → 2`, and three roots
    `0, 1, 2` with `0 → 3` -/
def exChain_H (st : Strat) (incl : Bool) : Cfg :=
  { D := { n := 3, edges := [⟨0, 1, .logic⟩, ⟨1, 2, .logic⟩] }, counts0 := [0, 1, 1],
    strat := st, incl := incl }
def exWide_H (st : Strat) (incl : Bool) : Cfg :=
  { D := { n := 4, edges := [⟨0, 3, .logic⟩] }, counts0 := [0, 0, 0, 1], strat := st, incl := incl }

theorem reachable_of_run {c : Cfg} {s0 s : PState} (h0 : Reachable c s0) (as : List Action)
    (h : run c s0 as = some s) : Reachable c s := by
  induction as generalizing s0 with
  | nil =>
    simp only [run, Option.some.injEq] at h
    exact h ▸ h0
  | cons a as ih =>
    unfold run at h
    cases h1 : step? c s0 a with
    | none => simp [h1] at h
    | some s1 =>
      simp only [h1] at h
      exact ih (Reachable.step a h0 h1) h

/-- the machine events one protocol action amounts to -/
def evOf (s : PState) : Action → List IEv
  | .interrupt => [.signal]
  | .schedPoll => [.poll (readyUnder s)]
  | _ => []

/-- projection of a schedule of the run protocol onto the events its `InterruptibleStream` sees -/
def proj (c : Cfg) : PState → List Action → List IEv
  | _, [] => []
  | s, a :: as =>
    match step? c s a with
    | none => []
    | some s' => evOf s a ++ proj c s' as

/-- hand-outs the scheduler makes of the answers counted by the ghost run -/
def IG.cnt (incl : Bool) (g : IG) : Nat := g.yN + if incl then g.yI else 0

theorem istep_poll_cnt (st : Strat) (incl : Bool) (g : IG) (u : Under) :
    (istep st g (.poll u)).cnt incl =
      g.cnt incl + (if g.everSent && (pollNext st g.m u).2.handsOut incl then 1 else 0) := by
  simp only [istep, IG.cnt]
  cases g.everSent <;> cases (pollNext st g.m u).2 <;> cases incl <;> simp [Out.handsOut] <;> omega

/-- one protocol action and the ghost machine stay in step -/
theorem proj_step {c : Cfg} {s s' : PState} {a : Action} (h : step? c s a = some s') (g : IG)
    (hm : g.m = s.im) :
    ((evOf s a).foldl (istep c.strat) g).m = s'.im ∧
    ((evOf s a).foldl (istep c.strat) g).everSent = (g.everSent || a == .interrupt) ∧
    s.handedOut.length ≤ s'.handedOut.length ∧
    g.cnt c.incl ≤ ((evOf s a).foldl (istep c.strat) g).cnt c.incl ∧
    (g.everSent = true → s'.handedOut.length + g.cnt c.incl =
      s.handedOut.length + ((evOf s a).foldl (istep c.strat) g).cnt c.incl) := by
  by_cases h1 : a = .interrupt
  · subst h1
    obtain ⟨e1, e2, -, -⟩ := step_interrupt h
    simp [evOf, istep, IG.cnt, hm, e1, e2]
  · by_cases h2 : a = .schedPoll
    · subst h2
      obtain ⟨e1, e2, -⟩ := step_schedPoll h
      have hc := istep_poll_cnt c.strat c.incl g (readyUnder s)
      simp only [evOf, List.foldl_cons, List.foldl_nil]
      refine ⟨?_, ?_, ?_, ?_, ?_⟩
      · simp [istep, hm, e1]
      · simp [istep]
      · omega
      · omega
      · intro hes
        rw [hc, e2, hm, hes]
        simp only [Bool.true_and]
        omega
    · obtain ⟨e1, e2, -, -⟩ := step_other h h1 h2
      have he : evOf s a = [] := by
        cases a <;> first | rfl | exact absurd rfl h1 | exact absurd rfl h2
      have hb : (a == Action.interrupt) = false := by simpa using h1
      simp [he, hm, e1, e2, hb]

/-- number of functions handed out by those actions of `as` that come after the first `interrupt` -/
def handoutsAfterIntr (c : Cfg) : PState → Bool → List Action → Nat
  | _, _, [] => 0
  | s, seen, a :: as =>
    match step? c s a with
    | none => 0
    | some s' =>
      (if seen then s'.handedOut.length - s.handedOut.length else 0)
        + handoutsAfterIntr c s' (seen || a == .interrupt) as

def intrBound : Strat → Bool → Nat
  | .finish, incl => if incl then 1 else 0
  | .pollN 0, incl => if incl then 1 else 0
  | .pollN (k + 1), _ => k + 1
  | _, _ => 0

/-- the hand-outs after the signal are hand-outs of answers the ghost machine counts -/
theorem handouts_le_cnt (c : Cfg) (as : List Action) (s : PState) (g : IG) (hm : g.m = s.im) :
    handoutsAfterIntr c s g.everSent as + g.cnt c.incl ≤
      ((proj c s as).foldl (istep c.strat) g).cnt c.incl := by
  induction as generalizing s g with
  | nil => simp [handoutsAfterIntr, proj]
  | cons a as ih =>
    unfold handoutsAfterIntr proj
    cases h : step? c s a with
    | none => simp
    | some s' =>
      obtain ⟨e1, e2, e3, e4, e5⟩ := proj_step h g hm
      have ih' := ih s' _ e1
      rw [e2] at ih'
      simp only [List.foldl_append]
      cases hes : g.everSent with
      | false =>
        simp only [hes, Bool.false_or, Bool.false_eq_true, if_false] at ih' ⊢
        omega
      | true =>
        have e5' := e5 hes
        simp only [hes, Bool.true_or, if_true] at ih' ⊢
        omega

/-- the same for a completed run that starts with the signal already sent -/
theorem run_handedOut_cnt (c : Cfg) (as : List Action) (s sF : PState) (g : IG) (hm : g.m = s.im)
    (hes : g.everSent = true) (hr : run c s as = some sF) :
    sF.handedOut.length + g.cnt c.incl =
      s.handedOut.length + ((proj c s as).foldl (istep c.strat) g).cnt c.incl := by
  induction as generalizing s g with
  | nil =>
    simp only [run, Option.some.injEq] at hr
    subst hr
    simp [proj]
  | cons a as ih =>
    unfold run at hr
    unfold proj
    cases h : step? c s a with
    | none => simp [h] at hr
    | some s' =>
      simp only [h] at hr
      obtain ⟨e1, e2, e3, e4, e5⟩ := proj_step h g hm
      have ih' := ih s' _ e1 (by rw [e2, hes]; rfl) hr
      have e5' := e5 hes
      simp only [List.foldl_append]
      omega

/-- the machine bounds, in terms of what the scheduler hands out -/
theorem cnt_le_intrBound (st : Strat) (hst : st = .finish ∨ ∃ k, st = .pollN k) (incl : Bool)
    (evs : List IEv) : (irun st evs).cnt incl ≤ intrBound st incl := by
  have hle : (irun st evs).cnt incl ≤ (irun st evs).yN + (irun st evs).yI := by
    unfold IG.cnt; split <;> omega
  have hF : st = .finish ∨ st = .pollN 0 → (irun st evs).cnt incl ≤ if incl then 1 else 0 := by
    intro h
    obtain ⟨h1, h2, -, -⟩ := finish_bound st h evs
    unfold IG.cnt
    cases incl <;> simp [h1, h2]
  rcases hst with rfl | ⟨k, rfl⟩
  · exact hF (Or.inl rfl)
  · cases k with
    | zero => exact hF (Or.inr rfl)
    | succ k =>
      have := pollN_bound (k + 1) (by omega) evs
      simp only [intrBound]
      omega

/-- **C08**: every schedule, every interrupt point: at most `intrBound` hand-outs after the signal -/
theorem handouts_after_interrupt_le (c : Cfg) (hst : c.strat = .finish ∨ ∃ k, c.strat = .pollN k)
    (as : List Action) : handoutsAfterIntr c (init c) false as ≤ intrBound c.strat c.incl := by
  have h := handouts_le_cnt c as (init c) {} rfl
  have hb := cnt_le_intrBound c.strat hst c.incl (proj c (init c) as)
  have h0 : ({} : IG).cnt c.incl = 0 := by simp [IG.cnt]
  have he : ({} : IG).everSent = false := rfl
  rw [he, h0] at h
  exact Nat.le_trans h hb

/-- non-vacuity: the bounds are attained.  `FinishCurrent`: the signal arrives while the ready
    stream is `Pending`; function 1 is still handed out (as `Interrupted(Some 1)`), 2 never is.
    `PollNextN(2)`: two more hand-outs after the signal. -/
example : handoutsAfterIntr (exChain_H .finish true) (init (exChain_H .finish true)) false
    [.schedPoll, .schedPoll, .interrupt, .invoke 0, .finish 0 true, .queuerRecv, .schedPoll,
     .invoke 1, .finish 1 true, .queuerRecv, .queuerEnd, .schedPoll, .schedEnd, .ret] = 1 := by
  decide
example : handoutsAfterIntr (exChain_H .finish false) (init (exChain_H .finish false)) false
    [.schedPoll, .schedPoll, .interrupt, .invoke 0, .finish 0 true, .queuerRecv, .schedPoll] = 0 := by
  decide
example : handoutsAfterIntr (exWide_H (.pollN 2) true) (init (exWide_H (.pollN 2) true)) false
    [.schedPoll, .interrupt, .schedPoll, .schedPoll, .schedPoll] = 2 := by decide

/-- **C08** (signal already pending when the call begins): `FinishCurrent` / `PollNextN(0)` hand out
    nothing, `PollNextN(n)` at most `n` -/
theorem presignalled_bound (c : Cfg) (as : List Action) {s : PState}
    (h : run c (init c) (.interrupt :: as) = some s) :
    (c.strat = .finish ∨ c.strat = .pollN 0 → s.handedOut = []) ∧
    (∀ k, c.strat = .pollN (k + 1) → s.handedOut.length ≤ k + 1) := by
  unfold run at h
  cases h1 : step? c (init c) .interrupt with
  | none => simp [h1] at h
  | some s1 =>
    simp only [h1] at h
    obtain ⟨e1, e2, -, -⟩ := step_interrupt h1
    have hcnt := run_handedOut_cnt c as s1 s (istep c.strat {} .signal)
      (by simp [istep, e1, init]) rfl h
    have h0 : (istep c.strat {} .signal).cnt c.incl = 0 := by simp [istep, IG.cnt]
    have hl : s1.handedOut.length = 0 := by simp [e2, init]
    rw [h0, hl, ← irun_cons] at hcnt
    constructor
    · intro hst
      obtain ⟨-, -, h3, h4⟩ := finish_bound c.strat hst (proj c s1 as)
      have : s.handedOut.length = 0 := by
        rw [Nat.add_zero, Nat.zero_add] at hcnt
        rw [hcnt]; unfold IG.cnt; rw [h3, h4]; split <;> rfl
      exact List.eq_nil_of_length_eq_zero this
    · intro k hk
      have hb := cnt_le_intrBound c.strat (Or.inr ⟨k + 1, hk⟩) c.incl (.signal :: proj c s1 as)
      rw [hk] at hb hcnt
      simp only [intrBound] at hb
      omega

/-- non-vacuity: such runs exist; `PollNextN(2)` attains its bound, `FinishCurrent` hands out nothing -/
example : (run (exWide_H (.pollN 2) true) (init (exWide_H (.pollN 2) true))
    [.interrupt, .schedPoll, .schedPoll, .schedPoll]).map (·.handedOut) = some [2, 1] := by decide
example : (run (exWide_H .finish true) (init (exWide_H .finish true))
    [.interrupt, .schedPoll, .schedPoll]).map (·.handedOut) = some [] := by decide

/-- **C08** `NonInterruptible` / `IgnoreInterruptions`: a signal never interrupts -/
theorem noninterrupting_run (c : Cfg) (hst : c.strat = .non ∨ c.strat = .ignore) {s : PState}
    (hr : Reachable c s) :
    s.im.sig = false ∧ s.im.ian = false ∧ s.dropped = none ∧ s.closeAfter = none := by
  induction hr with
  | init => simp [init]
  | @step s s' a _ h ih =>
    obtain ⟨i1, i2, i3, i4⟩ := ih
    by_cases h1 : a = .interrupt
    · subst h1
      obtain ⟨e1, -, e3, e4⟩ := step_interrupt h
      simp [e1, e3, e4, i1, i2, i3, i4]
    · by_cases h2 : a = .schedPoll
      · subst h2
        obtain ⟨e1, -, e3⟩ := step_schedPoll h
        obtain ⟨t1, t2, t3⟩ := pollNext_transparent hst i1 i2 (readyUnder s)
        have hne : (pollNext c.strat s.im (readyUnder s)).2 ≠ .intSome := by
          rw [t3]; cases readyUnder s <;> simp [transparentOut]
        obtain ⟨d1, d2⟩ := e3 hne
        rw [e1, d1, d2]
        exact ⟨t1, t2, i3, i4⟩
      · obtain ⟨e1, -, e3, e4⟩ := step_other h h1 h2
        rw [e1, e3, e4]
        exact ⟨i1, i2, i3, i4⟩

/-- non-vacuity: a reachable state in which two signals were sent, one of them received, and all
    roots were handed out regardless -/
example : (run (exWide_H .ignore true) (init (exWide_H .ignore true))
    [.interrupt, .schedPoll, .schedPoll, .interrupt, .schedPoll]).map
      (fun s => (s.im.recv, s.im.sent, s.handedOut)) = some (true, true, [2, 1, 0]) := by decide
example (s : PState) (h : run (exWide_H .ignore true) (init (exWide_H .ignore true))
    [.interrupt, .schedPoll, .schedPoll, .interrupt, .schedPoll] = some s) :
    s.im.sig = false ∧ s.im.ian = false ∧ s.dropped = none ∧ s.closeAfter = none :=
  noninterrupting_run _ (Or.inr rfl) (reachable_of_run Reachable.init _ h)

/-- **C08** (interruptible streams): items yielded after the signal obey the same bounds, counting
    the `Interrupted(Some _)` item, whatever the include flag -/
def yieldsAfterIntr (c : Cfg) : SState → Bool → List SAction → Nat
  | _, _, [] => 0
  | s, seen, a :: as =>
    match sstep? c true s a with
    | none => 0
    | some s' =>
      (if seen then s'.yielded.length - s.yielded.length else 0)
        + yieldsAfterIntr c s' (seen || a == .interrupt) as

/-- the machine events one stream action amounts to -/
def sevOf (c : Cfg) (s : SState) : SAction → List IEv
  | .interrupt => [.signal]
  | .poll => [.poll (sipollUnder c true s)]
  | _ => []

/-- projection of a consumer schedule onto the events the `InterruptibleStream` wrapper sees -/
def sproj (c : Cfg) : SState → List SAction → List IEv
  | _, [] => []
  | s, a :: as =>
    match sstep? c true s a with
    | none => []
    | some s' => sevOf c s a ++ sproj c s' as

theorem sproj_step {c : Cfg} {s s' : SState} {a : SAction} (h : sstep? c true s a = some s')
    (g : IG) (hm : g.m = s.im) :
    ((sevOf c s a).foldl (istep c.strat) g).m = s'.im ∧
    ((sevOf c s a).foldl (istep c.strat) g).everSent = (g.everSent || a == .interrupt) ∧
    s.yielded.length ≤ s'.yielded.length ∧
    g.yN + g.yI ≤ ((sevOf c s a).foldl (istep c.strat) g).yN +
      ((sevOf c s a).foldl (istep c.strat) g).yI ∧
    (g.everSent = true → s'.yielded.length + (g.yN + g.yI) =
      s.yielded.length + (((sevOf c s a).foldl (istep c.strat) g).yN +
        ((sevOf c s a).foldl (istep c.strat) g).yI)) := by
  by_cases h1 : a = .interrupt
  · subst h1
    obtain ⟨e1, e2⟩ := sstep_interrupt h
    simp [sevOf, istep, hm, e1, e2]
  · by_cases h2 : a = .poll
    · subst h2
      obtain ⟨e1, e2⟩ := sstep_poll h
      have hc := istep_poll_sum c.strat g (sipollUnder c true s)
      simp only [sevOf, List.foldl_cons, List.foldl_nil]
      refine ⟨?_, ?_, ?_, ?_, ?_⟩
      · simp [istep, hm, e1]
      · simp [istep]
      · omega
      · rw [hc]; split <;> omega
      · intro hes
        rw [hc, e2, hm, hes]
        simp only [Bool.true_and]
        split <;> omega
    · obtain ⟨e1, e2⟩ := sstep_other h h1 h2
      have he : sevOf c s a = [] := by
        cases a <;> first | rfl | exact absurd rfl h1 | exact absurd rfl h2
      have hb : (a == SAction.interrupt) = false := by simpa using h1
      simp [he, hm, e1, e2, hb]

theorem yields_le_cnt (c : Cfg) (as : List SAction) (s : SState) (g : IG) (hm : g.m = s.im) :
    yieldsAfterIntr c s g.everSent as + (g.yN + g.yI) ≤
      ((sproj c s as).foldl (istep c.strat) g).yN + ((sproj c s as).foldl (istep c.strat) g).yI := by
  induction as generalizing s g with
  | nil => simp [yieldsAfterIntr, sproj]
  | cons a as ih =>
    unfold yieldsAfterIntr sproj
    cases h : sstep? c true s a with
    | none => simp
    | some s' =>
      obtain ⟨e1, e2, e3, e4, e5⟩ := sproj_step h g hm
      have ih' := ih s' _ e1
      rw [e2] at ih'
      simp only [List.foldl_append]
      cases hes : g.everSent with
      | false =>
        simp only [hes, Bool.false_or, Bool.false_eq_true, if_false] at ih' ⊢
        omega
      | true =>
        have e5' := e5 hes
        simp only [hes, Bool.true_or, if_true] at ih' ⊢
        omega

theorem stream_yields_after_interrupt_le (c : Cfg) (hst : c.strat = .finish ∨ ∃ k, c.strat = .pollN k)
    (as : List SAction) : yieldsAfterIntr c (sinit c) false as ≤ intrBound c.strat true := by
  have h := yields_le_cnt c as (sinit c) {} rfl
  have hb := cnt_le_intrBound c.strat hst true (sproj c (sinit c) as)
  have he : ({} : IG).everSent = false := rfl
  have h0 : ({} : IG).yN + ({} : IG).yI = 0 := rfl
  rw [he, h0] at h
  simp only [IG.cnt, if_true] at hb
  exact Nat.le_trans h hb

/-- non-vacuity: the bounds are attained (`FinishCurrent`: the `Interrupted(Some 1)` item) -/
example : yieldsAfterIntr (exChain_H .finish true) (sinit (exChain_H .finish true)) false
    [.poll, .poll, .interrupt, .drop 0, .poll, .poll, .poll] = 1 := by decide
example : yieldsAfterIntr (exWide_H (.pollN 2) false) (sinit (exWide_H (.pollN 2) false)) false
    [.poll, .interrupt, .poll, .poll, .poll] = 2 := by decide

end FG
