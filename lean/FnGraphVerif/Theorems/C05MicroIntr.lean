/-
  Theorems/C05MicroIntr.lean — C05 / C08 for the INTERRUPTIBLE streams (`stream_interruptible`,
  `stream_with_interruptible`) at micro-step granularity.

  `Proofs/WDefs.lean` defines the machine (nothing under `Model/` is changed): one `poll_next` of the
  `InterruptibleStream` wrapper is

      check ; [ pollBegin ; drainStep* ; readyStep ; finish ]

  (`check` = `interruptCheck`, which may complete the poll at once with `Interrupted(None)` / end of
  stream; `pollBegin … readyStep` = the inner micro poll of `Model/StreamMicro.lean`, literally
  `mstep?`; `finish` = the bookkeeping of `pollNext` on the inner answer).  `drop f` and `interrupt`
  (`sent := true`) of other threads may land between ANY two micro steps.

  Results, for EVERY interleaving:
  * refinement (`microI_refines_atomic`): every reachable micro state is simulated by a run of the
    atomic model `sstep?` / `sipoll` of `Model/StreamPoll.lean`: drops landing before the `drainStep`
    that sees the done channel empty commute to BEFORE the atomic poll, drops landing after it to
    AFTER the poll; a signal landing anywhere between `check` and `finish` is not seen by this
    poll's `interruptCheck` and commutes to AFTER the poll.  Outside a poll the two states agree
    exactly, except that the micro state may carry one more (spurious) `wake` — a drop landing in
    the drain loop consumes the waker registration left by the PREVIOUS poll (example below);
    the polls give the same answers.  Without interference the micro poll computes exactly
    `sipoll` (`microI_refines_atomic_poll`).
  * C05: no panic, no lost wake-up, `Pending` ⇒ woken ∨ blocked by an undropped `FnRef`.
  * C08: the items yielded by polls whose `interruptCheck` came after the signal obey the atomic
    bound `intrBound` (through the refinement and `stream_yields_after_interrupt_le`).  Counting in
    real time the bound is `intrBound + 1` and that is attained: the poll that is already past its
    `interruptCheck` when the signal arrives still yields its item.
-/
import FnGraphVerif.Theorems.C05
import FnGraphVerif.Proofs.WPoll
import FnGraphVerif.Proofs.WRT
import FnGraphVerif.Proofs.WCount
namespace FG

variable {c : Cfg} {x x' : MIState}

theorem exDiamond_good_W (st : Strat) : GoodCfg (exDiamond_W st) := goodCfg_of_check (show exDiamond_I.check = true by decide)
theorem exJoin_good_W (st : Strat) : GoodCfg (exJoin_W st) :=
  goodCfg_of_check (show exJoin_I.check = true by decide)

/-! ### 1. no panic -/

/-- **C05 (micro, interruptible)**: drops and signals at any micro step, polls, an early stream drop:
    no panic -/
theorem microI_no_panic (hc : GoodCfg c) (hr : MIReachable c x) : x.m.s.panic = false :=
  (miinv_reachable hc hr).minv.core.noPanic

/-- the run used below, diamond, `PollNextN(1)`: poll 1 yields 0; inside poll 2 `drop 0` lands in the
    drain loop (it consumes the waker registration of poll 1: a spurious `wake`) and the signal lands
    between two `drainStep`s — AFTER this poll's `interruptCheck`: the poll yields 2 as a plain item;
    poll 3 sees the signal (first poll after it: not counted), yields 1; poll 4 answers
    `Interrupted(None)` in `check`, without touching the inner stream; the stream is dropped. -/
def exMicroI_W : List MIAction :=
  [.check, .pollBegin, .drainStep, .readyStep, .finish,
   .check, .pollBegin, .drop 0, .drainStep, .interrupt, .drainStep, .readyStep, .finish,
   .check, .pollBegin, .drainStep, .readyStep, .finish,
   .check, .dropStream]

example :
    let x := miexRun (exDiamond_W (.pollN 1)) exMicroI_W
    MIReachable (exDiamond_W (.pollN 1)) x ∧ x.m.s.panic = false ∧ x.m.s.yielded = [0, 2, 1] ∧
      x.ret = some (.intNone, none) ∧ x.m.s.streamDropped = true :=
  ⟨miexRun_reachable (by decide),
   microI_no_panic (exDiamond_good_W _) (miexRun_reachable (by decide)), by decide, by decide, by decide⟩

/-! ### 2. no lost wake-up -/

/-- **C05 (micro, interruptible, no lost wake-up)**: whenever the consumer is outside a poll of the
    wrapper, parked (its last poll answered `Pending`), and some function has all its predecessors
    dropped — no matter at which micro step of which poll those drops (and any signals) landed — a
    wake-up has been signalled. -/
theorem microI_no_lost_wakeup (hc : GoodCfg c) (hr : MIReachable c x) (hw : x.w = .idle)
    (hd : x.m.s.streamDropped = false) (hp : x.m.s.lastPending = true) (hn : needsPoll c x.m.s) :
    x.m.s.wake = true := by
  have hi := (miinv_reachable hc hr)
  have hpc := hi.wIdle hw
  have hpk := hi.minv.park hpc
  rcases hpk.parkedWake hp hd with hw | ⟨hq, _⟩
  · exact hw
  · exfalso
    obtain ⟨v, hv, hvy, hpar⟩ := hn
    obtain ⟨htx, hrq⟩ := hpk.parked hp
    have hrel : ∀ p ∈ parents c.D v, p ∈ x.m.s.released := by
      intro p hpm
      rcases hi.minv.core.droppedDone hd p (hpar p hpm) with h1 | h1
      · exact h1
      · rw [hq] at h1; cases h1
    rcases hi.minv.core.complete htx v hv hrel with h1 | h1
    · rw [hrq] at h1; cases h1
    · exact hvy h1

/-- the mid-poll form: once the drain loop has seen the done channel empty, a consumer that still
    holds its senders is woken or registered on a still empty channel — whatever lands afterwards -/
theorem microI_registered (hc : GoodCfg c) (hr : MIReachable c x) (hpc : x.m.pc = .readyPoll)
    (htx : x.m.s.txOpen = true) : x.m.s.wake = true ∨ (x.m.s.doneQ = [] ∧ x.m.s.doneRxWaker = true) :=
  (miinv_reachable hc hr).minv.registered hpc htx

/-- non-vacuity, join `0 → 2 ← 1`, `FinishCurrent`: both drops AND the signal land inside the third
    poll, after the `drainStep` that registered the waker: the poll answers `Pending`, node 2 needs a
    poll, `wake` is set; the signal is still in the channel (`sent`) for the next `interruptCheck`. -/
example :
    let x := miexRun (exJoin_W .finish)
      [.check, .pollBegin, .drainStep, .readyStep, .finish, .check, .pollBegin, .drainStep, .readyStep, .finish,
       .check, .pollBegin, .drainStep, .drop 0, .interrupt, .drop 1, .readyStep, .finish]
    MIReachable (exJoin_W .finish) x ∧ x.w = .idle ∧ x.m.s.streamDropped = false ∧ x.m.s.lastPending = true ∧
      x.ret = some (.pending, none) ∧ needsPoll (exJoin_W .finish) x.m.s ∧ x.m.s.wake = true ∧
      x.m.s.im.sent = true :=
  ⟨miexRun_reachable (by decide), by decide, by decide, by decide, by decide,
   ⟨2, by decide, by decide, by decide⟩, by decide, by decide⟩

/-! ### 3. `Pending` without a wake-up means: blocked by an undropped `FnRef` -/

/-- a parked, unwoken consumer: every unyielded function has an undropped direct predecessor -/
theorem microI_parked_not_stalled (hc : GoodCfg c) (hr : MIReachable c x) (hw : x.w = .idle)
    (hd : x.m.s.streamDropped = false) (hp : x.m.s.lastPending = true) :
    x.m.s.wake = true ∨
    ∀ v, v < c.n → v ∉ x.m.s.yielded → ∃ p ∈ parents c.D v, p ∉ x.m.s.droppedRefs := by
  by_cases hwk : x.m.s.wake = true
  · exact Or.inl hwk
  · right
    intro v hv hvy
    apply Classical.byContradiction
    intro hcon
    apply hwk
    apply microI_no_lost_wakeup hc hr hw hd hp
    refine ⟨v, hv, hvy, ?_⟩
    intro p hpm
    apply Classical.byContradiction
    intro hpd
    exact hcon ⟨p, hpm, hpd⟩

/-- a poll of the wrapper completes either in `check` (never with `Pending`) or in `finish` -/
theorem microI_check_not_pending (hs : mistep? c x .check = some x') (hw : x'.w = .idle) :
    ∃ o, x'.ret = some (o, none) ∧ o ≠ .pending ∧ x'.m.s.lastPending = false := by
  simp only [mistep?] at hs
  split at hs
  · split at hs
    · cases hs; cases hw
    · rename_i hpi
      have hpi : pollsInner c.strat x.m.s.im = false := by simpa using hpi
      have hne := pollNext_noInner (u := .pending) hpi
      cases hs
      exact ⟨_, rfl, hne, by simp [hne]⟩
  · cases hs

theorem finish_facts (hs : mistep? c x .finish = some x') :
    x.w = .returned ∧ x'.w = .idle ∧ x'.m.s.streamDropped = x.m.s.streamDropped ∧
    ∃ o it, x'.ret = some (o, it) ∧ (x'.m.s.lastPending = true ↔ o = .pending) := by
  simp only [mistep?] at hs
  split at hs
  · rename_i hw
    split at hs
    · cases hs
      exact ⟨hw, rfl, rfl, _, _, rfl, by simp⟩
    · cases hs
  · cases hs

/-- **C05 (micro, interruptible)**: when a poll of the wrapper completes with `Pending` (the `finish`
    that produced it) and `wake` is not set afterwards, every unyielded function is blocked by an
    undropped `FnRef` of a direct predecessor — whatever drops and signals landed inside that poll. -/
theorem microI_pending_not_stalled (hc : GoodCfg c) (hr : MIReachable c x)
    (hs : mistep? c x .finish = some x') (hp : x'.ret.map Prod.fst = some .pending) :
    x'.m.s.wake = true ∨
    ∀ v, v < c.n → v ∉ x'.m.s.yielded → ∃ p ∈ parents c.D v, p ∉ x'.m.s.droppedRefs := by
  obtain ⟨a1, a2, a3, o, it, a4, a5⟩ := finish_facts hs
  have hsd : x.m.s.streamDropped = false := ((miinv_reachable hc hr).wReturned a1).2.1
  rw [a4] at hp
  simp only [Option.map_some, Option.some.injEq] at hp
  exact microI_parked_not_stalled hc (MIReachable.step .finish hr hs) a2 (a3.trans hsd) (a5.mpr hp)

/-- non-vacuity on the diamond, `FinishCurrent`: after yielding 0 the second poll answers `Pending`
    with `wake = false` (0's ref is live: 1, 2 are blocked by 0, 3 by 1 and 2), although a signal
    landed inside the poll … -/
example :
    let x := miexRun (exDiamond_W .finish)
      [.check, .pollBegin, .drainStep, .readyStep, .finish, .check, .pollBegin, .interrupt, .drainStep, .readyStep]
    let x' := miexRun (exDiamond_W .finish)
      [.check, .pollBegin, .drainStep, .readyStep, .finish, .check, .pollBegin, .interrupt, .drainStep, .readyStep,
       .finish]
    MIReachable (exDiamond_W .finish) x ∧ mistep? (exDiamond_W .finish) x .finish = some x' ∧
      x'.ret.map Prod.fst = some .pending ∧ x'.m.s.wake = false :=
  ⟨miexRun_reachable (by decide), by decide, by decide, by decide⟩

/-- … and with `drop 0` landing between the registering `drainStep` and `readyStep` (and the signal
    right after it) the poll still answers `Pending` but `wake = true`: the left disjunct.  The next
    poll sees the signal and hands the item on as `Interrupted(Some 2)`. -/
example :
    let x := miexRun (exDiamond_W .finish)
      [.check, .pollBegin, .drainStep, .readyStep, .finish,
       .check, .pollBegin, .drainStep, .drop 0, .interrupt, .readyStep]
    let x' := miexRun (exDiamond_W .finish)
      [.check, .pollBegin, .drainStep, .readyStep, .finish,
       .check, .pollBegin, .drainStep, .drop 0, .interrupt, .readyStep, .finish]
    let x'' := miexRun (exDiamond_W .finish)
      [.check, .pollBegin, .drainStep, .readyStep, .finish,
       .check, .pollBegin, .drainStep, .drop 0, .interrupt, .readyStep, .finish,
       .check, .pollBegin, .drainStep, .drainStep, .readyStep, .finish]
    MIReachable (exDiamond_W .finish) x ∧ mistep? (exDiamond_W .finish) x .finish = some x' ∧
      x'.ret.map Prod.fst = some .pending ∧ x'.m.s.wake = true ∧ x'.m.s.doneQ = [0] ∧
      x''.ret = some (.intSome, some 2) :=
  ⟨miexRun_reachable (by decide), by decide, by decide, by decide, by decide, by decide⟩

/-! ### 4. C03 / C02 / C01 stream forms -/

/-- **C03 (micro, interruptible)**: nothing is queued or yielded twice -/
theorem microI_yield_nodup (hc : GoodCfg c) (hr : MIReachable c x) : (x.m.s.readyQ ++ x.m.s.yielded).Nodup :=
  (miinv_reachable hc hr).minv.core.queueNodup

/-- **C02 (micro, interruptible)**: a function is queued / yielded only after the `FnRef`s of all its
    ancestors were dropped -/
theorem microI_yield_after_ancestors (hc : GoodCfg c) (hr : MIReachable c x) {u v : Nat}
    (hv : v ∈ x.m.s.readyQ ∨ v ∈ x.m.s.yielded) (huv : ReachP c.D u v) :
    u ∈ x.m.s.droppedRefs ∧ u ∉ x.m.s.live := by
  have hi := (miinv_reachable hc hr).minv.core
  have key : ∀ w, (w ∈ x.m.s.readyQ ∨ w ∈ x.m.s.yielded) → ∀ p, IsEdge c.D p w →
      (p ∈ x.m.s.droppedRefs ∧ p ∉ x.m.s.live) ∧ p ∈ x.m.s.yielded := by
    intro w hw p hpw
    have hd := hi.doneDropped p (Or.inl (hi.ready w hw p (mem_parents.mpr hpw)))
    exact ⟨⟨hd, fun hl => hi.liveNotDropped p hl hd⟩, hi.droppedYielded p hd⟩
  induction huv with
  | edge he => exact (key _ hv _ he).1
  | tail _ he ih => exact ih (Or.inr (key _ hv _ he).2)

/-- **C01 (micro, interruptible)**: two functions ordered by the scheduling graph never have live
    `FnRef`s together -/
theorem microI_no_ancestor_live (hc : GoodCfg c) (hr : MIReachable c x) {u v : Nat}
    (hu : u ∈ x.m.s.live) (hv : v ∈ x.m.s.live) : ¬ ReachP c.D u v := by
  intro huv
  have hi := (miinv_reachable hc hr).minv.core
  exact (microI_yield_after_ancestors hc hr (Or.inr (hi.liveYielded v hv)) huv).2 hu

/-- non-vacuity: in the run `exMicroI_W` node 2 was yielded by the poll in which `drop 0` landed;
    after poll 3 the unordered nodes 1 and 2 have live refs together -/
example :
    let x := miexRun (exDiamond_W (.pollN 1)) (exMicroI_W.take 18)
    MIReachable (exDiamond_W (.pollN 1)) x ∧ x.m.s.readyQ ++ x.m.s.yielded = [0, 2, 1] ∧
      ReachP (exDiamond_W (.pollN 1)).D 0 2 ∧ 0 ∈ x.m.s.droppedRefs ∧ 1 ∈ x.m.s.live ∧ 2 ∈ x.m.s.live :=
  ⟨miexRun_reachable (by decide), by decide, ReachP.edge ⟨⟨0, 2, .logic⟩, by decide, rfl, rfl⟩,
   by decide, by decide, by decide⟩

/-! ### 5. refinement -/

/-- **refinement, one poll**: from a state outside a poll, the interference-free schedule
    `check ; pollBegin ; drainStep^(|doneQ|+1) ; readyStep ; finish` (when the wrapper polls the inner
    stream) resp. `check` alone (when it does not) is enabled and computes exactly the atomic
    `sipoll c true`: the same state — including `wake`, `lastPending` and the wrapper's `im` — and the
    same answer. -/
theorem microI_refines_atomic_poll (c : Cfg) (x : MIState) (hw : x.w = .idle) (hpc : x.m.pc = .idle)
    (hsd : x.m.s.streamDropped = false) :
    ∃ x', mirun c x (if pollsInner c.strat x.m.s.im then pollSchedule (x.m.s.doneQ.length + 1) else [.check])
        = some x' ∧
      x'.w = .idle ∧ x'.m.pc = .idle ∧ x'.m.s = (sipoll c true x.m.s).1 ∧
      x'.ret = some (sipoll c true x.m.s).2 := by
  cases hpi : pollsInner c.strat x.m.s.im with
  | true =>
    obtain ⟨x', h1, h2, h3, h4, h5, _⟩ := mirun_poll_inner c x hw hpc hsd hpi
    exact ⟨x', by simpa using h1, h2, h3, h4, h5⟩
  | false =>
    obtain ⟨x', h1, h2, h3, h4, h5⟩ := mirun_poll_outer c x hw hsd hpi
    exact ⟨x', by simpa using h1, h2, h3.trans hpc, h4, h5⟩

/-- non-vacuity: on the diamond (`PollNextN(1)`) with `doneQ = [2, 1]` pending and the signal in the
    channel, the interference-free poll needs 3 `drainStep`s and yields 3 as a plain item (first poll
    after the signal); the poll after it answers `Interrupted(None)` in `check` alone -/
example :
    let x := miexRun (exDiamond_W (.pollN 1))
      [.check, .pollBegin, .drainStep, .readyStep, .finish, .drop 0,
       .check, .pollBegin, .drainStep, .drainStep, .readyStep, .finish,
       .check, .pollBegin, .drainStep, .readyStep, .finish, .drop 2, .drop 1, .interrupt]
    MIReachable (exDiamond_W (.pollN 1)) x ∧ x.w = .idle ∧ x.m.s.doneQ = [2, 1] ∧
      pollsInner (exDiamond_W (.pollN 1)).strat x.m.s.im = true ∧
      (mirun (exDiamond_W (.pollN 1)) x (pollSchedule 3)).map (fun y => (y.m.s, y.ret)) =
        some ((sipoll (exDiamond_W (.pollN 1)) true x.m.s).1, some (sipoll (exDiamond_W (.pollN 1)) true x.m.s).2) ∧
      (sipoll (exDiamond_W (.pollN 1)) true x.m.s).2 = (.noInt, some 3) ∧
      pollsInner (exDiamond_W (.pollN 1)).strat (sipoll (exDiamond_W (.pollN 1)) true x.m.s).1.im = false ∧
      (sipoll (exDiamond_W (.pollN 1)) true (sipoll (exDiamond_W (.pollN 1)) true x.m.s).1).2 = (.intNone, none) :=
  ⟨miexRun_reachable (by decide), by decide, by decide, by decide, by decide, by decide, by decide, by decide⟩

/-- **refinement, whole runs, every interleaving**: every reachable micro state `x` is simulated by
    a run of the atomic model (`SReachG c s seen n last`: `s` is reachable by an atomic schedule in
    which `seen` tells whether a signal was sent, `n` is its `yieldsAfterIntr` and `last` the answer of
    its last poll).  `MITrS` spells out the correspondence at each program point: outside a poll
    `x.m.s = { s with wake := s.wake || w }`; between `check` and the `drainStep` that sees the done
    channel empty, `s` is the state BEFORE the atomic poll (all drops so far applied: they commute to
    before the poll; a signal is remembered: it commutes to after the poll); from then on `s` is the
    state AFTER the atomic poll and the rest of the micro poll computes it. -/
theorem microI_refines_atomic (hc : GoodCfg c) (hr : MIReachable c x) :
    ∃ s seen n last, SReachG c s seen n last ∧ MITrS c x s seen n last :=
  mitr_reachable hc hr

/-- the instrumented atomic runs are the atomic schedules -/
theorem atomic_schedule_of_SReachG {s : SState} {seen : Bool} {n : Nat} {last : Option (Out × Option Nat)}
    (h : SReachG c s seen n last) :
    ∃ bs, srun c true (sinit c) bs = some s ∧ bs.any (· == .interrupt) = seen ∧
      yieldsAfterIntr c (sinit c) false bs = n :=
  h.trace

/-- **refinement, completed polls**: whenever the consumer is outside a poll of the wrapper — in
    particular right after a poll has completed — the micro state is a state of the atomic model,
    reached by an atomic schedule `bs` with the same signals-sent flag and the same count of items
    yielded after the signal, up to one spurious `wake`; and the last poll gave the atomic answer. -/
theorem microI_idle_atomic (hc : GoodCfg c) (hr : MIReachable c x) (hw : x.w = .idle) :
    ∃ bs s w last, srun c true (sinit c) bs = some s ∧ SReachG c s x.sigSeen x.yAfter last ∧
      x.m.s = { s with wake := s.wake || w } ∧ x.ret = last ∧
      bs.any (· == .interrupt) = x.sigSeen ∧ yieldsAfterIntr c (sinit c) false bs = x.yAfter := by
  obtain ⟨s, seen, n, last, hg, hsim⟩ := mitr_reachable hc hr
  cases hsim with
  | idle _ w hms hseen hn hret =>
    obtain ⟨bs, h1, h2, h3⟩ := hg.trace
    subst hseen hn
    exact ⟨bs, s, w, last, h1, hg, hms, hret, h2, h3⟩
  | checked hw' => rw [hw] at hw'; cases hw'
  | draining hw' => rw [hw] at hw'; cases hw'
  | ready hw' => rw [hw] at hw'; cases hw'
  | returned hw' => rw [hw] at hw'; cases hw'

/-- in particular the micro state outside a poll is atomically reachable up to `wake` -/
theorem microI_idle_reachable (hc : GoodCfg c) (hr : MIReachable c x) (hw : x.w = .idle) :
    ∃ s w, SReachable c true s ∧ x.m.s = { s with wake := s.wake || w } := by
  obtain ⟨_, s, w, _, _, hg, hms, _⟩ := microI_idle_atomic hc hr hw
  exact ⟨s, w, hg.reachable, hms⟩

/-- the no-lost-wake-up statement, this time derived from the ATOMIC theorem `no_lost_wakeup` through
    the refinement (the spurious `wake` of the micro state only helps) -/
theorem microI_no_lost_wakeup_via_atomic (hc : GoodCfg c) (hr : MIReachable c x) (hw : x.w = .idle)
    (hd : x.m.s.streamDropped = false) (hp : x.m.s.lastPending = true) (hn : needsPoll c x.m.s) :
    x.m.s.wake = true := by
  obtain ⟨s, w, hs, hms⟩ := microI_idle_reachable hc hr hw
  rw [hms] at hd hp hn ⊢
  have := no_lost_wakeup hc hs hd hp hn
  show (s.wake || w) = true
  rw [this]; rfl

/-- non-vacuity of the whole-run refinement on the diamond, `PollNextN(1)`, run `exMicroI_W` (a drop
    and the signal land in the middle of poll 2): after poll 2 the micro state is the atomic state
    after `poll, drop 0, poll, interrupt` — the drop commuted to before, the signal to after the poll —
    except for the spurious `wake`; after poll 4 the states are equal. -/
example :
    let c := exDiamond_W (.pollN 1)
    let x := miexRun c (exMicroI_W.take 13)
    let s := exRun_I c true [.poll, .drop 0, .poll, .interrupt]
    MIReachable c x ∧ SReachable c true s ∧ x.w = .idle ∧ x.m.s = { s with wake := s.wake || true } ∧
      s.wake = false ∧ x.ret = some (sipoll c true (exRun_I c true [.poll, .drop 0])).2 ∧
      x.ret = some (.noInt, some 2) :=
  ⟨miexRun_reachable (by decide), exRun_reachable_I (by decide), by decide, by decide, by decide, by decide,
   by decide⟩

example :
    let c := exDiamond_W (.pollN 1)
    let x := miexRun c (exMicroI_W.take 19)
    MIReachable c x ∧ x.w = .idle ∧ x.m.s = exRun_I c true [.poll, .drop 0, .poll, .interrupt, .poll, .poll] ∧
      x.yAfter = yieldsAfterIntr c (sinit c) false [.poll, .drop 0, .poll, .interrupt, .poll, .poll] :=
  ⟨miexRun_reachable (by decide), by decide, by decide, by decide⟩

/-- non-vacuity, a state in the MIDDLE of a poll (`readyPoll`, the atomic run is ahead): the rest of
    the micro poll (`finS`) computes the atomic state after `poll, drop 0, poll, interrupt` -/
example :
    let c := exDiamond_W (.pollN 1)
    let x := miexRun c (exMicroI_W.take 11)
    let s := exRun_I c true [.poll, .drop 0, .poll, .interrupt]
    MIReachable c x ∧ x.w = .inner ∧ x.m.pc = .readyPoll ∧ finS x.m.s = adj s true s.im :=
  ⟨miexRun_reachable (by decide), by decide, by decide, by decide⟩

/-! ### 6. C08: the stream bound for micro runs -/

/-- **C08 (micro, interruptible streams)**: in every micro run — drops and signals landing at any
    micro step — the items yielded by polls whose `interruptCheck` came after the (first) signal obey
    the atomic bound.  Proved through the refinement from `stream_yields_after_interrupt_le`. -/
theorem microI_yields_after_interrupt_le (hc : GoodCfg c)
    (hst : c.strat = .finish ∨ ∃ k, c.strat = .pollN k) (hr : MIReachable c x) :
    x.yAfter ≤ intrBound c.strat true := by
  obtain ⟨s, seen, n, last, hg, hsim⟩ := mitr_reachable hc hr
  have hb := hg.bound hst
  have hle : x.yAfter ≤ n := by
    cases hsim with
    | idle _ _ _ _ hn => omega
    | checked _ _ _ _ _ _ _ hn => omega
    | draining _ _ _ _ _ _ _ _ _ _ hn => omega
    | ready _ _ _ _ _ hn => omega
    | returned _ _ _ _ _ _ hn => omega
  omega

/-- the real-time count (items yielded after the signal was SENT) exceeds the other one by at most
    the one item of the poll that was already past its `interruptCheck` … -/
theorem microI_yields_realtime_le (hc : GoodCfg c)
    (hst : c.strat = .finish ∨ ∃ k, c.strat = .pollN k) (hr : MIReachable c x) :
    x.yAfterRT ≤ intrBound c.strat true + 1 := by
  have h1 := (rtinv_reachable hr).le
  have h2 := microI_yields_after_interrupt_le hc hst hr
  omega

/-- … and that is attained: in `exMicroI_W` (`PollNextN(1)`, bound 1) the signal lands inside poll 2,
    which still yields 2; poll 3 yields 1; then `Interrupted(None)`.  Two items after the signal in
    real time, one of them by a poll that began after it.  So the atomic bound, read in real time, does
    NOT hold at micro-step granularity: the poll in flight is not affected by the signal. -/
example :
    let c := exDiamond_W (.pollN 1)
    let x := miexRun c exMicroI_W
    MIReachable c x ∧ intrBound c.strat true = 1 ∧ x.yAfter = 1 ∧ x.yAfterRT = 2 ∧
      ¬ x.yAfterRT ≤ intrBound c.strat true :=
  ⟨miexRun_reachable (by decide), by decide, by decide, by decide, by decide⟩

/-- `FinishCurrent`: the signal lands while the inner poll is `Pending`-bound; the item waited for is
    handed on as `Interrupted(Some 2)` by the next poll (bound 1 attained), then end of stream -/
example :
    let c := exDiamond_W .finish
    let x := miexRun c
      [.check, .pollBegin, .drainStep, .readyStep, .finish,
       .check, .pollBegin, .drainStep, .interrupt, .drop 0, .readyStep, .finish,
       .check, .pollBegin, .drainStep, .drainStep, .readyStep, .finish, .check]
    MIReachable c x ∧ x.yAfter = 1 ∧ intrBound c.strat true = 1 ∧ x.m.s.yielded = [0, 2] ∧
      x.ret = some (.endd, none) :=
  ⟨miexRun_reachable (by decide), by decide, by decide, by decide, by decide⟩

end FG
