/-
  Theorems/CarriedIntr.lean — runs that are handed an `InterruptibilityState` which was used by an
  earlier run (`reborrow()`): the run starts from `initWith c s0 r0 k0`, i.e. with
  `im := { sent := s0, recv := r0, cnt := k0 }` (a signal still in the channel, a signal already
  received, polls already counted); `sig`, `hp`, `ipc`, `ian` belong to the per-run
  `InterruptibleStream` and start `false`.

  * SAFETY (C01 / C02 / C03 / C10): `Inv0` does not mention `im`; every `Inv0` consequence of
    `Theorems/RunSafety.lean` holds for `ReachableW` unchanged.
  * LIVENESS (C04): `LInv` holds literally of `initWith …` (its only `im` clause is `IM.Ok`:
    `sig → recv`, `ian → recv`); `deadlock_freeW`, `settle_quiescentW`, `eventually_returnsW`.
  * C08 with the signal pending (`s0`) or already received (`r0`) when the call begins:
      `FinishCurrent`, `PollNextN(0)`: nothing is handed out;
      `PollNextN(n)`: at most `carriedBudget n r0 k0` hand-outs, where
          `carriedBudget n true  k0 = n - (k0 + 1)`   (every poll is counted BEFORE it may yield),
          `carriedBudget n false k0 = n - k0`         (the poll that first receives is not counted);
      in either case no `Interrupted(Some _)` answer occurs (`dropped = closeAfter = none`), so the
      bound does not depend on `interrupted_next_item_include`;
      `NonInterruptible` / `IgnoreInterruptions`: the carried fields change nothing but `im`.
  * the same bounds for `yielded` of the interruptible stream started from `sinitWith`.
-/
import FnGraphVerif.Theorems.C04
import FnGraphVerif.Proofs.NIntrRemove
import FnGraphVerif.Proofs.TBase
import FnGraphVerif.Proofs.TIntr
import FnGraphVerif.Proofs.TLive
namespace FG

variable {c : Cfg} {s : PState} {s0 r0 : Bool} {k0 : Nat}

/-! ## concrete instances for the non-vacuity examples -/

/-- the diamond 0→1, 0→2, 1→3, 2→3 with an interrupt strategy -/
def exDia_T (st : Strat) : Cfg := { exCfg_F with strat := st }
theorem exDia_good_T (st : Strat) : GoodCfg (exDia_T st) := exCfg_good_F _ rfl rfl

/-! ## generalised safety: consequences of `Inv0` -/

/-- **C02** from the invariant alone -/
theorem handout_after_ancestors_of_inv0 (hinv : Inv0 c s) {u v : Nat}
    (hv : v ∈ s.readyQ ∨ v ∈ s.handedOut ∨ s.dropped = some v) (huv : ReachP c.D u v) :
    u ∈ s.endedOk := by
  induction huv with
  | edge he => exact hinv.doneEnded _ (Or.inl (hinv.ready _ hv _ (mem_parents.mpr he)))
  | tail _ he ih =>
    have hw := hinv.doneEnded _ (Or.inl (hinv.ready _ hv _ (mem_parents.mpr he)))
    exact ih (Or.inr (Or.inl (hinv.endedHanded _ (Or.inl hw))))

/-- **C01** (run half) from the invariant alone -/
theorem no_ancestor_inflight_of_inv0 (hinv : Inv0 c s) {u v : Nat}
    (hu : u ∈ s.inflight) (hv : v ∈ s.inflight) : ¬ ReachP c.D u v := fun huv =>
  (hinv.inflNotEnded u hu).1
    (handout_after_ancestors_of_inv0 hinv (Or.inr (Or.inl (hinv.inflHanded v hv))) huv)

/-- **C02** (and the core of C01) for runs with carried interrupt state -/
theorem handout_after_ancestorsW (hc : GoodCfg c) (hr : ReachableW c s0 r0 k0 s) {u v : Nat}
    (hv : v ∈ s.readyQ ∨ v ∈ s.handedOut ∨ s.dropped = some v) (huv : ReachP c.D u v) :
    u ∈ s.endedOk :=
  handout_after_ancestors_of_inv0 (inv0_reachableW hc hr) hv huv

/-- **C01** (run half) for runs with carried interrupt state -/
theorem no_ancestor_inflightW (hc : GoodCfg c) (hr : ReachableW c s0 r0 k0 s) {u v : Nat}
    (hu : u ∈ s.inflight) (hv : v ∈ s.inflight) : ¬ ReachP c.D u v :=
  no_ancestor_inflight_of_inv0 (inv0_reachableW hc hr) hu hv

/-- **C02**: a done id is only ever sent for a function that returned successfully -/
theorem done_only_after_endW (hc : GoodCfg c) (hr : ReachableW c s0 r0 k0 s) {x : Nat}
    (hx : x ∈ s.released ∨ x ∈ s.doneQ) : x ∈ s.endedOk ∧ x ∉ s.inflight := by
  have hinv := inv0_reachableW hc hr
  exact ⟨hinv.doneEnded x hx, fun hi => (hinv.inflNotEnded x hi).1 (hinv.doneEnded x hx)⟩

/-- **C03**: nothing is queued or handed out twice -/
theorem handout_nodupW (hc : GoodCfg c) (hr : ReachableW c s0 r0 k0 s) :
    (s.readyQ ++ s.handedOut ++ s.dropped.toList).Nodup :=
  (inv0_reachableW hc hr).queueNodup

/-- **C03**: the closure is invoked at most once per function, and only for handed-out functions -/
theorem invoked_nodupW (hc : GoodCfg c) (hr : ReachableW c s0 r0 k0 s) :
    s.invoked.Nodup ∧ ∀ f ∈ s.invoked, f ∈ s.handedOut :=
  ⟨(inv0_reachableW hc hr).invNodup, (inv0_reachableW hc hr).invHanded⟩

/-- **C03 / C04**: no `expect`, `usize` underflow, `try_write` failure, full channel -/
theorem no_panicW (hc : GoodCfg c) (hr : ReachableW c s0 r0 k0 s) : s.panic = false :=
  (inv0_reachableW hc hr).noPanic

/-- **C10**: at most `limit` functions in flight (`fold*`: at most one) -/
theorem inflight_le_limitW (hc : GoodCfg c) (hr : ReachableW c s0 r0 k0 s) :
    (c.sequential = true → s.inflight.length ≤ 1) ∧
    (c.sequential = false → ∀ l, c.limit = some (l + 1) → s.inflight.length ≤ l + 1) :=
  ⟨(inv0_reachableW hc hr).limSeq, (inv0_reachableW hc hr).limPar⟩

/-- **C07**: nothing ordered after a failed function is ever queued or handed out -/
theorem no_successor_of_failedW (hc : GoodCfg c) (hr : ReachableW c s0 r0 k0 s) {f v : Nat}
    (hf : f ∈ s.failed) (hfv : ReachP c.D f v) : v ∉ s.handedOut ∧ v ∉ s.readyQ := by
  have hinv := inv0_reachableW hc hr
  have key : ∀ _ : (v ∈ s.readyQ ∨ v ∈ s.handedOut ∨ s.dropped = some v), False := by
    intro hv
    have he := handout_after_ancestors_of_inv0 hinv hv hfv
    exact (List.nodup_append.mp hinv.endNodup).2.2 f he f hf rfl
  exact ⟨fun h => key (Or.inr (Or.inl h)), fun h => key (Or.inl h)⟩

/-- **C04 / C07**: a call that returned an outcome has nothing in flight -/
theorem return_no_inflightW (hc : GoodCfg c) (hr : ReachableW c s0 r0 k0 s) {fin : Bool}
    {p np errs : List Nat} (h : s.result = some (.outcome fin p np errs)) : s.inflight = [] := by
  have hinv := inv0_reachableW hc hr
  obtain ⟨h1, _, _, h4⟩ := hinv.ret0 _ h
  exact hinv.sDoneInfl0 h1 (h4 _ _ _ _ rfl)

/-- a clean run of the diamond up to the hand-out of the sink 3, with `IgnoreInterruptions`, a
    signal in the channel, one received earlier and 2 polls counted -/
example : ∃ s, ReachableW (exDia_T .ignore) true true 2 s ∧ s.handedOut = [0, 2, 1, 3] ∧
    s.im.cnt = 6 ∧ 0 ∈ s.endedOk ∧ (s.readyQ ++ s.handedOut ++ s.dropped.toList).Nodup ∧
    s.panic = false := by
  obtain ⟨s, hr, hp⟩ := reachableW_of_any (c := exDia_T .ignore) (s0 := true) (r0 := true) (k0 := 2)
    (as := exT1_F) (p := fun s => s.handedOut == [0, 2, 1, 3] && s.im.cnt == 6) (by decide)
  simp only [Bool.and_eq_true, beq_iff_eq] at hp
  have h3 : 3 ∈ s.handedOut := by rw [hp.1]; simp
  exact ⟨s, hr, hp.1, hp.2,
    handout_after_ancestorsW (exDia_good_T _) hr (Or.inr (Or.inl h3)) ex_reach03,
    handout_nodupW (exDia_good_T _) hr, no_panicW (exDia_good_T _) hr⟩

/-- the two middle functions of the diamond are in flight together in a run with carried state
    (`PollNextN(5)`, signal received earlier, 1 poll counted: budget 3) -/
example : ∃ s, ReachableW (exDia_T (.pollN 5)) false true 1 s ∧ 2 ∈ s.inflight ∧ 1 ∈ s.inflight ∧
    ¬ ReachP (exDia_T (.pollN 5)).D 2 1 ∧ s.inflight.length ≤ 2 := by
  obtain ⟨s, hr, hp⟩ := reachableW_of_any (c := exDia_T (.pollN 5)) (s0 := false) (r0 := true) (k0 := 1)
    (as := exT1_F.take 6) (p := fun s => decide (2 ∈ s.inflight) && decide (1 ∈ s.inflight) &&
      decide (s.inflight.length ≤ 2)) (by decide)
  simp only [Bool.and_eq_true, decide_eq_true_eq] at hp
  exact ⟨s, hr, hp.1.1, hp.1.2, no_ancestor_inflightW (exDia_good_T _) hr hp.1.1 hp.1.2, hp.2⟩

/-- C10 with carried state: `limit = 1` on the diamond -/
example : ∃ s, ReachableW { exDia_T .ignore with limit := some 1 } true false 0 s ∧ s.readyQ = [1] ∧
    s.inflight = [2] ∧ s.inflight.length ≤ 1 := by
  obtain ⟨s, hr, hp⟩ := reachableW_of_any (c := { exDia_T .ignore with limit := some 1 })
    (s0 := true) (r0 := false) (k0 := 0)
    (as := exT1_F.take 5) (p := fun s => s.readyQ == [1] && s.inflight == [2]) (by decide)
  simp only [Bool.and_eq_true, beq_iff_eq] at hp
  exact ⟨s, hr, hp.1, hp.2, (inflight_le_limitW (exCfg_good_F _ rfl rfl) hr).2 rfl 0 rfl⟩

/-! ## generalised liveness -/

theorem settle_reachableW (hr : ReachableW c s0 r0 k0 s) : ReachableW c s0 r0 k0 (settle c s) :=
  settle_reachableFrom hr

/-- the internal actions terminate also from a carried start -/
theorem settle_quiescentW (hc : GoodCfg c) (hr : ReachableW c s0 r0 k0 s) : Quiescent c (settle c s) :=
  settle_quiescent_from hc (inv0_initWith hc s0 r0 k0) hr

/-- **C04** (deadlock freedom) for runs with carried interrupt state: quiescent and nothing in
    flight ⇒ the call has returned.  `LInv` holds literally of `initWith …` (`linv_initWith`). -/
theorem deadlock_freeW (hc : GoodCfg c) (hr : ReachableW c s0 r0 k0 s) (hq : Quiescent c s)
    (hi : s.inflight = []) : s.result.isSome = true :=
  deadlock_free_of_inv hc (inv0_reachableW hc hr) (linv_reachableW hc hr) hq hi

/-- **C04 / C10**: from every state of such a run, letting the in-flight functions complete and
    running the internal actions makes the call return -/
theorem eventually_returnsW (hc : GoodCfg c) (hr : ReachableW c s0 r0 k0 s) :
    ∃ as s', (∀ a ∈ as, a ≠ .interrupt ∧ ∀ f, a ≠ .finish f false) ∧ run c s as = some s' ∧
      s'.result.isSome = true :=
  eventually_returns_from hc (inv0_initWith hc s0 r0 k0) (linv_initWith hc s0 r0 k0) hr

/-- **C03**: a run with carried state that returned without a signal being received (so `r0 = false`
    and the pending one, if any, was never looked at) and without a failure handed out everything -/
theorem clean_return_allW (hc : GoodCfg c) (hr : ReachableW c s0 r0 k0 s) {r : Ret}
    (h : s.result = some r) (hni : s.im.recv = false) (hf : s.failed = []) :
    s.handedOut.Perm (List.range c.n) := by
  have hinv := inv0_reachableW hc hr
  have hl := linv_reachableW hc hr
  obtain ⟨_, hqd, _⟩ := hinv.ret0 r h
  have hs0 : s.sRemaining = 0 := by
    rcases hl.qDone_pdone hqd with h | h | h
    · exact h
    · exact absurd hf h
    · rw [hni] at h; exact absurd h (by simp)
  apply (List.perm_ext_iff_of_nodup hinv.handedOut_nodup List.nodup_range).mpr
  intro v
  constructor
  · intro hv; exact List.mem_range.mpr (hinv.bound v (Or.inr (Or.inl hv)))
  · intro hv
    exact hinv.endedHanded v (Or.inl (hinv.all_ended hs0 hf (List.mem_range.mp hv)))

/- non-vacuity: `FinishCurrent` on the diamond with a signal received by an earlier run.  The
   initial state is not quiescent; `settle` polls once (`Interrupted(None)`), ends the stream, the
   scheduler and the queuer, and returns `NotFinished` with nothing processed. -/
set_option maxRecDepth 100000 in
example : ¬ Quiescent (exDia_T .finish) (initWith (exDia_T .finish) false true 1) ∧
    (settle (exDia_T .finish) (initWith (exDia_T .finish) false true 1)).inflight = [] ∧
    (settle (exDia_T .finish) (initWith (exDia_T .finish) false true 1)).result =
      some (.outcome false [] [0, 1, 2, 3] []) := by decide
example : Quiescent (exDia_T .finish) (settle (exDia_T .finish) (initWith (exDia_T .finish) false true 1)) :=
  settle_quiescentW (exDia_good_T _) .refl
set_option maxRecDepth 100000 in
example : (settle (exDia_T .finish) (initWith (exDia_T .finish) false true 1)).result.isSome = true :=
  deadlock_freeW (exDia_good_T _) (settle_reachableW .refl) (settle_quiescentW (exDia_good_T _) .refl)
    (by decide)
/- `PollNextN(3)`, signal received earlier, 1 poll counted (budget 1): the root runs, then the
   run is quiescent with the root in flight and has (rightly) not returned -/
set_option maxRecDepth 100000 in
example : (settle (exDia_T (.pollN 3)) (initWith (exDia_T (.pollN 3)) false true 1)).inflight = [0] ∧
    (settle (exDia_T (.pollN 3)) (initWith (exDia_T (.pollN 3)) false true 1)).result = none := by decide
example : ∃ as s', (∀ a ∈ as, a ≠ .interrupt ∧ ∀ f, a ≠ .finish f false) ∧
    run (exDia_T (.pollN 3)) (initWith (exDia_T (.pollN 3)) false true 1) as = some s' ∧
    s'.result.isSome = true :=
  eventually_returnsW (exDia_good_T _) .refl

/-! ## C08 for carried state: `FinishCurrent`, `PollNextN(n)` -/

theorem handsOut_isItem {incl : Bool} {o : Out} (h : o.handsOut incl = true) : o.isItem = true := by
  cases o <;> simp_all [Out.handsOut, Out.isItem]

/-- the protocol keeps the machine invariant; the count `y` is the number of hand-outs -/
theorem carried_invW {n : Nat} (hst : c.strat = .pollN n) (h0 : r0 = true ∨ s0 = true)
    (hr : ReachableW c s0 r0 k0 s) :
    InvW n s.im s.handedOut.length (carriedBudget n r0 k0) ∧ s.dropped = none ∧ s.closeAfter = none := by
  induction hr with
  | refl => exact ⟨invW_init n s0 r0 k0 h0, rfl, rfl⟩
  | @step s s' a _ h ih =>
    obtain ⟨i1, i2, i3⟩ := ih
    by_cases h1 : a = .interrupt
    · subst h1
      obtain ⟨e1, e2, e3, e4⟩ := step_interrupt h
      rw [e1, e2, e3, e4]
      exact ⟨invW_signal i1, i2, i3⟩
    · by_cases h2 : a = .schedPoll
      · subst h2
        obtain ⟨e1, e2, e3⟩ := step_schedPoll h
        rw [hst] at e1 e2 e3
        obtain ⟨p1, p2⟩ := invW_poll (readyUnder s) i1
        obtain ⟨d1, d2⟩ := e3 p2
        rw [e1, e2, d1, d2]
        refine ⟨invW_mono p1 ?_, i2, i3⟩
        by_cases hh : (pollNext (.pollN n) s.im (readyUnder s)).2.handsOut c.incl = true
        · simp [hh, handsOut_isItem hh]
        · simp only [hh, Bool.false_eq_true, if_false]; omega
      · obtain ⟨e1, e2, e3, e4⟩ := step_other h h1 h2
        rw [e1, e2, e3, e4]
        exact ⟨i1, i2, i3⟩

theorem carried_invFW (hst : c.strat = .finish) (h0 : r0 = true ∨ s0 = true)
    (hr : ReachableW c s0 r0 k0 s) :
    InvFW s.im ∧ s.handedOut = [] ∧ s.dropped = none ∧ s.closeAfter = none := by
  induction hr with
  | refl => exact ⟨invFW_init s0 r0 k0 h0, rfl, rfl, rfl⟩
  | @step s s' a _ h ih =>
    obtain ⟨i1, i2, i3, i4⟩ := ih
    by_cases h1 : a = .interrupt
    · subst h1
      obtain ⟨e1, e2, e3, e4⟩ := step_interrupt h
      rw [e1, e2, e3, e4]
      exact ⟨invFW_signal i1, i2, i3, i4⟩
    · by_cases h2 : a = .schedPoll
      · subst h2
        obtain ⟨e1, e2, e3⟩ := step_schedPoll h
        rw [hst] at e1 e2 e3
        obtain ⟨p1, p2⟩ := invFW_poll (readyUnder s) i1
        have hne : (pollNext .finish s.im (readyUnder s)).2 ≠ .intSome := by
          intro hh; rw [hh] at p2; simp [Out.isItem] at p2
        have hho : (pollNext .finish s.im (readyUnder s)).2.handsOut c.incl = false := by
          cases hh : (pollNext .finish s.im (readyUnder s)).2.handsOut c.incl with
          | false => rfl
          | true => rw [handsOut_isItem hh] at p2; cases p2
        obtain ⟨d1, d2⟩ := e3 hne
        rw [hho, i2] at e2
        rw [e1, d1, d2]
        exact ⟨p1, List.eq_nil_of_length_eq_zero (by simpa using e2), i3, i4⟩
      · obtain ⟨e1, e2, e3, e4⟩ := step_other h h1 h2
        rw [e1, e2, e3, e4]
        exact ⟨i1, i2, i3, i4⟩

/-- **C08** (carried state, `PollNextN(n)`): with a signal received by an earlier run (`r0`) or still
    in the channel (`s0`) the run hands out at most `carriedBudget n r0 k0` functions
    (`n - (k0 + 1)` when `r0`, `n - k0` when only `s0`), never answers `Interrupted(Some _)`,
    so nothing is swallowed and the bound does not depend on `interrupted_next_item_include`. -/
theorem carried_pollN_bound {n : Nat} (hst : c.strat = .pollN n) (h0 : r0 = true ∨ s0 = true)
    (hr : ReachableW c s0 r0 k0 s) :
    s.handedOut.length ≤ carriedBudget n r0 k0 ∧ s.dropped = none ∧ s.closeAfter = none := by
  obtain ⟨h1, h2, h3⟩ := carried_invW hst h0 hr
  exact ⟨h1.bound, h2, h3⟩

/-- the two cases of the bound spelled out -/
theorem carried_pollN_bound_recv {n : Nat} (hst : c.strat = .pollN n)
    (hr : ReachableW c s0 true k0 s) : s.handedOut.length ≤ n - (k0 + 1) := by
  have := (carried_pollN_bound hst (Or.inl rfl) hr).1
  simpa [carriedBudget] using this

theorem carried_pollN_bound_sent {n : Nat} (hst : c.strat = .pollN n)
    (hr : ReachableW c true false k0 s) : s.handedOut.length ≤ n - k0 := by
  have := (carried_pollN_bound hst (Or.inr rfl) hr).1
  simpa [carriedBudget] using this

/-- **C08** (carried state, the signal already pending when the call begins): `FinishCurrent` and
    `PollNextN(0)` start nothing -/
theorem carried_finish_nothing (hst : c.strat = .finish ∨ c.strat = .pollN 0)
    (h0 : r0 = true ∨ s0 = true) (hr : ReachableW c s0 r0 k0 s) :
    s.handedOut = [] ∧ s.dropped = none ∧ s.closeAfter = none := by
  rcases hst with hst | hst
  · exact (carried_invFW hst h0 hr).2
  · obtain ⟨h1, h2, h3⟩ := carried_pollN_bound hst h0 hr
    refine ⟨List.eq_nil_of_length_eq_zero ?_, h2, h3⟩
    have : carriedBudget 0 r0 k0 = 0 := by unfold carriedBudget; split <;> omega
    omega

/-- once the carried count has reached `n` (`k0 + 1 ≥ n` after a reception, `k0 ≥ n` otherwise)
    `PollNextN(n)` starts nothing either -/
theorem carried_pollN_exhausted {n : Nat} (hst : c.strat = .pollN n) (h0 : r0 = true ∨ s0 = true)
    (hk : n ≤ k0 + (if r0 then 1 else 0)) (hr : ReachableW c s0 r0 k0 s) : s.handedOut = [] := by
  have h1 := (carried_pollN_bound hst h0 hr).1
  apply List.eq_nil_of_length_eq_zero
  unfold carriedBudget at h1
  cases r0 <;> simp at h1 hk <;> omega

/-- and when the call returns, it returns nothing processed, everything not processed, no error
    (`Finished` only for the empty graph) -/
theorem carried_finish_outcome (hc : GoodCfg c) (hst : c.strat = .finish ∨ c.strat = .pollN 0)
    (h0 : r0 = true ∨ s0 = true) (hr : ReachableW c s0 r0 k0 s) {r : Ret} (h : s.result = some r) :
    r = .outcome (c.n == 0) [] (List.range c.n) [] := by
  have hinv := inv0_reachableW hc hr
  obtain ⟨hho, _, _⟩ := carried_finish_nothing hst h0 hr
  have hf : s.failed = [] := by
    cases hfl : s.failed with
    | nil => rfl
    | cons f l =>
      have := hinv.endedHanded f (Or.inr (by rw [hfl]; simp))
      rw [hho] at this; cases this
  have he : s.endedOk = [] := by
    cases hfl : s.endedOk with
    | nil => rfl
    | cons f l =>
      have := hinv.endedHanded f (Or.inl (by rw [hfl]; simp))
      rw [hho] at this; cases this
  have hse : s.shortErr = none := by
    cases hs : s.shortErr with
    | none => rfl
    | some f =>
      have hl := linv_reachableW hc hr
      exact absurd hf (hl.shortFailed (by rw [hs]; rfl))
  have hr' := (hinv.ret0 r h).2.2.1 hse
  have hsr : s.sRemaining = c.n := by
    have := hinv.sRem
    rw [he, hf] at this
    simpa using this
  have herr : s.errors = [] := by
    have := hinv.errs; rw [hf] at this; simpa using this
  rw [hr']
  unfold mkRet
  rw [hse, hho, hsr, herr]
  simp

/- non-vacuity / exactness on the wide graph (roots 0, 1, 2; 0 → 3): the bounds are attained -/
/-- `r0`, `k0 = 0`, `PollNextN(3)`: budget `3 - 1 = 2`, two hand-outs, the third poll interrupts -/
example : (run (exWide_H (.pollN 3) true) (initWith (exWide_H (.pollN 3) true) false true 0)
    [.schedPoll, .schedPoll, .schedPoll, .schedPoll]).map (fun s => (s.handedOut, s.im.ian, s.streamEnded))
    = some ([2, 1], true, true) ∧ carriedBudget 3 true 0 = 2 := by decide
/-- only `s0`, `k0 = 1`, `PollNextN(3)`: budget `3 - 1 = 2` -/
example : (run (exWide_H (.pollN 3) true) (initWith (exWide_H (.pollN 3) true) true false 1)
    [.schedPoll, .schedPoll, .schedPoll, .schedPoll]).map (fun s => (s.handedOut, s.im.ian, s.streamEnded))
    = some ([2, 1], true, true) ∧ carriedBudget 3 false 1 = 2 := by decide
/-- only `s0`, `k0 = 0`, `PollNextN(3)`: all three roots (the bound `n` of `presignalled_bound`) -/
example : (run (exWide_H (.pollN 3) true) (initWith (exWide_H (.pollN 3) true) true false 0)
    [.schedPoll, .schedPoll, .schedPoll, .schedPoll]).map (fun s => (s.handedOut, s.im.ian))
    = some ([2, 1, 0], true) ∧ carriedBudget 3 false 0 = 3 := by decide
/-- a further signal during the run changes nothing; parking on `Pending` neither (chain 0 → 1 → 2,
    `r0`, `k0 = 1`, `PollNextN(4)`: budget 2) -/
example : (run (exChain_H (.pollN 4) true) (initWith (exChain_H (.pollN 4) true) false true 1)
    [.schedPoll, .schedPoll, .interrupt, .invoke 0, .finish 0 true, .queuerRecv, .schedPoll,
     .invoke 1, .finish 1 true, .queuerRecv, .schedPoll, .schedPoll]).map
      (fun s => (s.handedOut, s.readyQ, s.im.ian)) = some ([0, 1], [2], true) ∧
    carriedBudget 4 true 1 = 2 := by decide
/-- the theorem applied: a reachable state of that run and its bound -/
example : ∃ s, ReachableW (exWide_H (.pollN 3) true) false true 0 s ∧ s.handedOut = [2, 1] ∧
    s.handedOut.length ≤ 2 ∧ s.dropped = none := by
  obtain ⟨s, hr, hp⟩ := reachableW_of_any (c := exWide_H (.pollN 3) true) (s0 := false) (r0 := true)
    (k0 := 0) (as := [.schedPoll, .schedPoll, .schedPoll]) (p := fun s => s.handedOut == [2, 1]) (by decide)
  simp only [beq_iff_eq] at hp
  exact ⟨s, hr, hp, carried_pollN_bound_recv rfl hr, (carried_pollN_bound rfl (Or.inl rfl) hr).2.1⟩
/-- `FinishCurrent` / `PollNextN(0)` / exhausted count: the first poll answers `Interrupted(None)` -/
example : (run (exWide_H .finish true) (initWith (exWide_H .finish true) false true 0)
    [.schedPoll, .schedPoll, .schedEnd, .queuerEnd, .ret]).map (fun s => (s.handedOut, s.result))
    = some ([], some (.outcome false [] [0, 1, 2, 3] [])) := by decide
example : (run (exWide_H (.pollN 0) true) (initWith (exWide_H (.pollN 0) true) true false 0)
    [.schedPoll, .schedPoll]).map (fun s => (s.handedOut, s.streamEnded)) = some ([], true) := by decide
example : (run (exWide_H (.pollN 2) true) (initWith (exWide_H (.pollN 2) true) false true 1)
    [.schedPoll, .schedPoll]).map (fun s => (s.handedOut, s.streamEnded)) = some ([], true) := by decide
example : ∃ s, ReachableW (exWide_H .finish true) false true 0 s ∧ s.streamEnded = true ∧ s.handedOut = [] := by
  obtain ⟨s, hr, hp⟩ := reachableW_of_any (c := exWide_H .finish true) (s0 := false) (r0 := true)
    (k0 := 0) (as := [.schedPoll, .schedPoll]) (p := fun s => s.streamEnded) (by decide)
  exact ⟨s, hr, hp, (carried_finish_nothing (Or.inl rfl) (Or.inl rfl) hr).1⟩
example : ∃ s, ReachableW (exDia_T .finish) true false 0 s ∧
    s.result = some (.outcome false [] [0, 1, 2, 3] []) := by
  obtain ⟨s, hr, hp⟩ := reachableW_of_any (c := exDia_T .finish) (s0 := true) (r0 := false) (k0 := 0)
    (as := [.schedPoll, .schedPoll, .schedEnd, .queuerEnd, .ret]) (p := fun s => s.result.isSome) (by decide)
  obtain ⟨r, hres⟩ := Option.isSome_iff_exists.mp hp
  have := carried_finish_outcome (exDia_good_T _) (Or.inl rfl) (Or.inr rfl) hr hres
  exact ⟨s, hr, by rw [hres, this]; rfl⟩
/-- the hypothesis `r0 ∨ s0` is needed (a carried count alone does not stop `FinishCurrent`) -/
example : (run (exWide_H .finish true) (initWith (exWide_H .finish true) false false 3)
    [.schedPoll, .schedPoll]).map (·.handedOut) = some [2, 1] := by decide

/-! ## C08 for carried state: `NonInterruptible` / `IgnoreInterruptions` -/

theorem rim_initWith (c : Cfg) (s0 r0 : Bool) (k0 : Nat) : RIm (initWith c s0 r0 k0) (init c) :=
  ⟨rfl, rfl, rfl, rfl, rfl⟩

/-- **C08** (carried state, `NonInterruptible` / `IgnoreInterruptions`): a schedule from the carried
    start and the same schedule WITHOUT its `interrupt` actions from the fresh start are both
    executable or both not, and the final states differ at most in `im` -/
theorem carried_noninterrupting (hst : c.strat = .non ∨ c.strat = .ignore) (s0 r0 : Bool) (k0 : Nat)
    (as : List Action) :
    (run c (initWith c s0 r0 k0) as).map clrIm =
      (run c (init c) (as.filter (· ≠ .interrupt))).map clrIm :=
  run_filter_interrupt hst as _ _ (rim_initWith c s0 r0 k0)

/-- schedules without `interrupt` need no filtering: the carried start and the fresh start run in
    lock step -/
theorem carried_noninterrupting_same (hst : c.strat = .non ∨ c.strat = .ignore) (s0 r0 : Bool) (k0 : Nat)
    (as : List Action) (hni : ∀ a ∈ as, a ≠ .interrupt) :
    (run c (initWith c s0 r0 k0) as).map clrIm = (run c (init c) as).map clrIm := by
  have h := carried_noninterrupting hst s0 r0 k0 as
  have hf : as.filter (· ≠ .interrupt) = as := by
    apply List.filter_eq_self.mpr
    intro a ha; simpa using hni a ha
  rwa [hf] at h

/-- every state of the carried run is, up to `im`, a state of the fresh run — and conversely -/
theorem carried_noninterrupting_reach (hst : c.strat = .non ∨ c.strat = .ignore) (s0 r0 : Bool) (k0 : Nat) :
    (∀ s, ReachableW c s0 r0 k0 s → ∃ t, Reachable c t ∧ clrIm s = clrIm t) ∧
    (∀ t, Reachable c t → ∃ s, ReachableW c s0 r0 k0 s ∧ clrIm s = clrIm t) := by
  constructor
  · intro s hr
    obtain ⟨as, has⟩ := reachableFrom_iff_run.mp hr
    have h := carried_noninterrupting hst s0 r0 k0 as
    rw [has] at h
    cases ht : run c (init c) (as.filter (· ≠ .interrupt)) with
    | none => rw [ht] at h; cases h
    | some t =>
      rw [ht] at h
      exact ⟨t, run_reachable_F .init ht, by simpa using h⟩
  · intro t ht
    obtain ⟨as, has⟩ := reachableFrom_iff_run.mp (reachable_iff_reachableFrom.mp ht)
    -- delete the interrupts on the fresh side first, then replay from the carried start
    have h1 := run_filter_interrupt hst as (init c) (init c) ⟨rfl, rfl, rfl, rfl, rfl⟩
    have h2 := carried_noninterrupting hst s0 r0 k0 as
    rw [← h1, has] at h2
    cases hs : run c (initWith c s0 r0 k0) as with
    | none => rw [hs] at h2; cases h2
    | some s =>
      rw [hs] at h2
      exact ⟨s, ReachableFrom.of_run .refl hs, by simpa using h2⟩

/-- in particular the hand-outs (and every other field but `im`) are those of a fresh run -/
theorem carried_noninterrupting_handedOut (hst : c.strat = .non ∨ c.strat = .ignore)
    (hr : ReachableW c s0 r0 k0 s) :
    ∃ t, Reachable c t ∧ t.handedOut = s.handedOut ∧ t.invoked = s.invoked ∧ t.endedOk = s.endedOk ∧
      t.result = s.result := by
  obtain ⟨t, ht, he⟩ := (carried_noninterrupting_reach hst s0 r0 k0).1 s hr
  have h1 : (clrIm s).handedOut = (clrIm t).handedOut := by rw [he]
  have h2 : (clrIm s).invoked = (clrIm t).invoked := by rw [he]
  have h3 : (clrIm s).endedOk = (clrIm t).endedOk := by rw [he]
  have h4 : (clrIm s).result = (clrIm t).result := by rw [he]
  exact ⟨t, ht, h1.symm, h2.symm, h3.symm, h4.symm⟩

/-- **C08**: with these strategies a signal never interrupts, carried or not -/
theorem noninterrupting_runW (hst : c.strat = .non ∨ c.strat = .ignore) (hr : ReachableW c s0 r0 k0 s) :
    s.im.sig = false ∧ s.im.ian = false ∧ s.dropped = none ∧ s.closeAfter = none := by
  induction hr with
  | refl => simp [initWith, init]
  | @step s s' a _ h ih =>
    obtain ⟨i1, i2, i3, i4⟩ := ih
    by_cases h1 : a = .interrupt
    · subst h1
      obtain ⟨e1, -, e3, e4⟩ := step_interrupt h
      simp [e1, e3, e4, i1, i2, i3, i4]
    · by_cases h2 : a = .schedPoll
      · subst h2
        obtain ⟨e1, -, e3⟩ := step_schedPoll h
        obtain ⟨t1, t2, t3⟩ := pollNext_transparent hst i1 i2 (readyUnder s)
        have hne : (pollNext c.strat s.im (readyUnder s)).2 ≠ .intSome := by
          rw [t3]; cases readyUnder s <;> simp [transparentOut]
        obtain ⟨d1, d2⟩ := e3 hne
        rw [e1, d1, d2]
        exact ⟨t1, t2, i3, i4⟩
      · obtain ⟨e1, -, e3, e4⟩ := step_other h h1 h2
        rw [e1, e3, e4]
        exact ⟨i1, i2, i3, i4⟩

/-- non-vacuity: `IgnoreInterruptions` on the diamond with everything carried; the complete clean
    run returns `Finished` exactly as from `init`, only `im` differs -/
example : (run (exDia_T .ignore) (initWith (exDia_T .ignore) true true 7) exTFull_F).map
      (fun s => (s.result, s.im.recv, s.im.cnt)) =
      some (some (.outcome true [0, 2, 1, 3] [] []), true, 12) ∧
    (run (exDia_T .ignore) (init (exDia_T .ignore)) exTFull_F).map
      (fun s => (s.result, s.im.recv, s.im.cnt)) =
      some (some (.outcome true [0, 2, 1, 3] [] []), false, 0) := by decide
example : (run (exDia_T .ignore) (initWith (exDia_T .ignore) true true 7) exTFull_F).map clrIm =
    (run (exDia_T .ignore) (init (exDia_T .ignore)) exTFull_F).map clrIm :=
  carried_noninterrupting_same (Or.inr rfl) _ _ _ _ (by decide)
example : (run (exWide_H .non true) (initWith (exWide_H .non true) true true 2)
    [.schedPoll, .interrupt, .schedPoll, .schedPoll]).map (·.handedOut) = some [2, 1, 0] := by decide

/-! ## the interruptible stream with carried state -/

/-- the initial state of `stream*_interruptible` handed a used `InterruptibilityState` -/
def sinitWith (c : Cfg) (s0 r0 : Bool) (k0 : Nat) : SState :=
  { sinit c with im := { sent := s0, recv := r0, cnt := k0 } }

theorem sinitWith_fresh (c : Cfg) : sinitWith c false false 0 = sinit c := rfl

inductive SReachableW (c : Cfg) (drain : Bool) (s0 r0 : Bool) (k0 : Nat) : SState → Prop
  | init : SReachableW c drain s0 r0 k0 (sinitWith c s0 r0 k0)
  | step {s s' : SState} (a : SAction) : SReachableW c drain s0 r0 k0 s → sstep? c drain s a = some s' →
      SReachableW c drain s0 r0 k0 s'

def srunW (c : Cfg) (drain : Bool) (s : SState) : List SAction → Option SState
  | [] => some s
  | a :: as => match sstep? c drain s a with
    | none => none
    | some s' => srunW c drain s' as

theorem sreachableW_of_srun {drain : Bool} {t t' : SState} {as : List SAction}
    (h0 : SReachableW c drain s0 r0 k0 t) (h : srunW c drain t as = some t') :
    SReachableW c drain s0 r0 k0 t' := by
  induction as generalizing t with
  | nil => simp only [srunW, Option.some.injEq] at h; exact h ▸ h0
  | cons a as ih =>
    simp only [srunW] at h
    cases hs : sstep? c drain t a with
    | none => rw [hs] at h; cases h
    | some t1 => rw [hs] at h; exact ih (.step a h0 hs) h

theorem stream_carried_invW {n : Nat} {drain : Bool} {t : SState} (hst : c.strat = .pollN n)
    (h0 : r0 = true ∨ s0 = true) (hr : SReachableW c drain s0 r0 k0 t) :
    InvW n t.im t.yielded.length (carriedBudget n r0 k0) := by
  induction hr with
  | init => exact invW_init n s0 r0 k0 h0
  | @step t t' a _ h ih =>
    by_cases h1 : a = .interrupt
    · subst h1
      obtain ⟨e1, e2⟩ := sstep_interrupt h
      rw [e1, e2]
      exact invW_signal ih
    · by_cases h2 : a = .poll
      · subst h2
        obtain ⟨e1, e2⟩ := sstep_poll h
        rw [hst] at e1 e2
        rw [e1, e2]
        exact (invW_poll _ ih).1
      · obtain ⟨e1, e2⟩ := sstep_other h h1 h2
        rw [e1, e2]
        exact ih

/-- **C08** (interruptible stream, carried state, `PollNextN(n)`): at most `carriedBudget n r0 k0`
    items are yielded -/
theorem stream_carried_pollN_bound {n : Nat} {drain : Bool} {t : SState} (hst : c.strat = .pollN n)
    (h0 : r0 = true ∨ s0 = true) (hr : SReachableW c drain s0 r0 k0 t) :
    t.yielded.length ≤ carriedBudget n r0 k0 :=
  (stream_carried_invW hst h0 hr).bound

theorem stream_carried_invFW {drain : Bool} {t : SState} (hst : c.strat = .finish)
    (h0 : r0 = true ∨ s0 = true) (hr : SReachableW c drain s0 r0 k0 t) :
    InvFW t.im ∧ t.yielded = [] := by
  induction hr with
  | init => exact ⟨invFW_init s0 r0 k0 h0, rfl⟩
  | @step t t' a _ h ih =>
    obtain ⟨i1, i2⟩ := ih
    by_cases h1 : a = .interrupt
    · subst h1
      obtain ⟨e1, e2⟩ := sstep_interrupt h
      rw [e1, e2]
      exact ⟨invFW_signal i1, i2⟩
    · by_cases h2 : a = .poll
      · subst h2
        obtain ⟨e1, e2⟩ := sstep_poll h
        rw [hst] at e1 e2
        obtain ⟨p1, p2⟩ := invFW_poll (sipollUnder c drain t) i1
        rw [p2, i2] at e2
        rw [e1]
        exact ⟨p1, List.eq_nil_of_length_eq_zero (by simpa using e2)⟩
      · obtain ⟨e1, e2⟩ := sstep_other h h1 h2
        rw [e1, e2]
        exact ⟨i1, i2⟩

/-- **C08** (interruptible stream, carried state): `FinishCurrent` / `PollNextN(0)` yield nothing
    when the signal is pending or was received before the stream was created -/
theorem stream_carried_finish_nothing {drain : Bool} {t : SState}
    (hst : c.strat = .finish ∨ c.strat = .pollN 0) (h0 : r0 = true ∨ s0 = true)
    (hr : SReachableW c drain s0 r0 k0 t) : t.yielded = [] := by
  rcases hst with hst | hst
  · exact (stream_carried_invFW hst h0 hr).2
  · have h1 := stream_carried_pollN_bound hst h0 hr
    apply List.eq_nil_of_length_eq_zero
    have : carriedBudget 0 r0 k0 = 0 := by unfold carriedBudget; split <;> omega
    omega

/-- non-vacuity / exactness for the stream (wide graph; the consumer polls four times) -/
example : (srunW (exWide_H (.pollN 3) true) true (sinitWith (exWide_H (.pollN 3) true) false true 0)
    [.poll, .poll, .poll, .poll]).map (fun t => (t.yielded, t.im.ian)) = some ([2, 1], true) ∧
    carriedBudget 3 true 0 = 2 := by decide
example : (srunW (exWide_H (.pollN 3) true) true (sinitWith (exWide_H (.pollN 3) true) true false 1)
    [.poll, .interrupt, .poll, .poll, .poll]).map (fun t => (t.yielded, t.im.ian)) = some ([2, 1], true) ∧
    carriedBudget 3 false 1 = 2 := by decide
example : (srunW (exWide_H .finish true) true (sinitWith (exWide_H .finish true) false true 5)
    [.poll, .poll]).map (fun t => (t.yielded, t.im.ian)) = some ([], true) := by decide
example (t : SState) (h : srunW (exWide_H (.pollN 3) true) true
    (sinitWith (exWide_H (.pollN 3) true) false true 0) [.poll, .poll, .poll, .poll] = some t) :
    t.yielded.length ≤ 2 :=
  stream_carried_pollN_bound (n := 3) rfl (Or.inl rfl) (sreachableW_of_srun .init h)

end FG
