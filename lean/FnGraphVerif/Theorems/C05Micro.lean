/-
  Theorems/C05Micro.lean — C05 for `FnRef` drops that land DURING a poll.

  `Model/StreamMicro.lean` splits one `poll_next` of the plain stream (fixed closure, `drain = true`)
  into `pollBegin ; drainStep* ; readyStep`; `drop f` (another thread) is enabled between any two
  micro steps.  All statements hold for every interleaving.  The atomic model (`Theorems/C05.lean`)
  is the special case in which no drop lands inside a poll (`micro_refines_atomic`,
  `micro_atomic_run`).
-/
import FnGraphVerif.Theorems.C05
import FnGraphVerif.Proofs.MInv
import FnGraphVerif.Proofs.MRefine
import FnGraphVerif.Proofs.MAtomic
namespace FG

variable {c : Cfg} {m m' : MState}

/-! ### 1. no panic -/

/-- **C05 (micro)**: drops at any micro step, polls, an early stream drop: no panic -/
theorem micro_no_panic (hc : GoodCfg c) (hr : MReachable c m) : m.s.panic = false :=
  (minv_reachable hc hr).core.noPanic

/-- the run used below, on the diamond: yield 0; inside the 2nd poll `drop 0` lands BEFORE the
    `drainStep` that would have registered the waker, is drained by the same poll, 2 is yielded;
    3rd poll yields 1; inside the 4th poll `drop 2` lands while draining and `drop 1` lands AFTER the
    registering `drainStep` (between it and `readyStep`): the poll answers `Pending` but `wake` is set;
    the 5th poll yields 3; the stream is dropped early (before `None`). -/
def exMicroDiamond_M : List MAction :=
  [.pollBegin, .drainStep, .readyStep,
   .pollBegin, .drop 0, .drainStep, .drainStep, .readyStep,
   .pollBegin, .drainStep, .readyStep,
   .pollBegin, .drop 2, .drainStep, .drainStep, .drop 1, .readyStep,
   .pollBegin, .drainStep, .drainStep, .readyStep, .dropStream]

example : MReachable exDiamond_I (mexRun exDiamond_I exMicroDiamond_M) ∧
    (mexRun exDiamond_I exMicroDiamond_M).s.panic = false ∧
    (mexRun exDiamond_I exMicroDiamond_M).s.yielded = [0, 2, 1, 3] ∧
    (mexRun exDiamond_I exMicroDiamond_M).s.streamDropped = true :=
  ⟨mexRun_reachable (by decide), micro_no_panic exDiamond_good_I (mexRun_reachable (by decide)),
   by decide, by decide⟩

/-! ### 2. no lost wake-up -/

/-- **C05 (micro, no lost wake-up)**: whenever the consumer is outside a poll, parked (its last poll
    returned `Pending`), and some function has all its predecessors dropped — no matter at which
    micro step of which poll those drops landed — a wake-up has been signalled. -/
theorem micro_no_lost_wakeup (hc : GoodCfg c) (hr : MReachable c m) (hpc : m.pc = .idle)
    (hd : m.s.streamDropped = false) (hp : m.s.lastPending = true) (hn : needsPoll c m.s) :
    m.s.wake = true := by
  have hi := minv_reachable hc hr
  have hpk := hi.park hpc
  rcases hpk.parkedWake hp hd with hw | ⟨hq, _⟩
  · exact hw
  · exfalso
    obtain ⟨v, hv, hvy, hpar⟩ := hn
    obtain ⟨htx, hrq⟩ := hpk.parked hp
    have hrel : ∀ p ∈ parents c.D v, p ∈ m.s.released := by
      intro p hpm
      rcases hi.core.droppedDone hd p (hpar p hpm) with h1 | h1
      · exact h1
      · rw [hq] at h1; cases h1
    rcases hi.core.complete htx v hv hrel with h1 | h1
    · rw [hrq] at h1; cases h1
    · exact hvy h1

/-- the mid-poll form of the same fact (the key step): once the drain loop has seen the done channel
    empty, a consumer that still holds its senders is woken or registered on a still empty channel -/
theorem micro_registered (hc : GoodCfg c) (hr : MReachable c m) (hpc : m.pc = .readyPoll)
    (htx : m.s.txOpen = true) : m.s.wake = true ∨ (m.s.doneQ = [] ∧ m.s.doneRxWaker = true) :=
  (minv_reachable hc hr).registered hpc htx

/-- non-vacuity, join `0 → 2 ← 1`, both drops INSIDE the third poll, AFTER the `drainStep` that
    registered the waker: the poll answers `Pending`, node 2 needs a poll, `wake` is set. -/
example :
    let m := mexRun exJoin_I [.pollBegin, .drainStep, .readyStep, .pollBegin, .drainStep, .readyStep,
      .pollBegin, .drainStep, .drop 0, .drop 1, .readyStep]
    MReachable exJoin_I m ∧ m.pc = .idle ∧ m.s.streamDropped = false ∧ m.s.lastPending = true ∧
      m.result = some .pending ∧ needsPoll exJoin_I m.s ∧ m.s.wake = true :=
  ⟨mexRun_reachable (by decide), by decide, by decide, by decide, by decide,
   ⟨2, by decide, by decide, by decide⟩, by decide⟩

/-- non-vacuity, the other case: both drops land inside the third poll BEFORE the registering
    `drainStep`; later `drainStep`s of the same poll drain them and the poll yields node 2. -/
example :
    let m := mexRun exJoin_I [.pollBegin, .drainStep, .readyStep, .pollBegin, .drainStep, .readyStep,
      .pollBegin, .drop 0, .drainStep, .drop 1, .drainStep, .drainStep, .readyStep]
    MReachable exJoin_I m ∧ m.pc = .idle ∧ m.result = some (.some 2) ∧ m.s.lastPending = false :=
  ⟨mexRun_reachable (by decide), by decide, by decide, by decide⟩

/-! ### 3. `Pending` without a wake-up means: blocked by an undropped `FnRef` -/

/-- a parked, unwoken consumer: every unyielded function has an undropped direct predecessor -/
theorem micro_parked_not_stalled (hc : GoodCfg c) (hr : MReachable c m) (hpc : m.pc = .idle)
    (hd : m.s.streamDropped = false) (hp : m.s.lastPending = true) :
    m.s.wake = true ∨
    ∀ v, v < c.n → v ∉ m.s.yielded → ∃ p ∈ parents c.D v, p ∉ m.s.droppedRefs := by
  by_cases hw : m.s.wake = true
  · exact Or.inl hw
  · right
    intro v hv hvy
    apply Classical.byContradiction
    intro hcon
    apply hw
    apply micro_no_lost_wakeup hc hr hpc hd hp
    refine ⟨v, hv, hvy, ?_⟩
    intro p hpm
    apply Classical.byContradiction
    intro hpd
    exact hcon ⟨p, hpm, hpd⟩

theorem readyStep_facts (hs : mstep? c m .readyStep = some m') :
    m.pc = .readyPoll ∧ m'.pc = .idle ∧ m'.s.streamDropped = m.s.streamDropped ∧
    (m'.s.lastPending = true ↔ m'.result = some .pending) := by
  simp only [mstep?] at hs
  split at hs
  · rename_i hpc
    cases hs
    refine ⟨hpc, rfl, ?_, ?_⟩
    · show (sReadyHalf m.s).1.streamDropped = m.s.streamDropped
      rw [sReadyHalf_eq]; exact (spollTail_facts m.s).1
    · simp
  · cases hs

/-- **C05 (micro)**: when a poll completes with `Pending` (the `readyStep` that produced it) and
    `wake` is not set afterwards, every unyielded function is blocked by an undropped `FnRef` of a
    direct predecessor — whatever drops landed inside that poll. -/
theorem micro_pending_not_stalled (hc : GoodCfg c) (hr : MReachable c m)
    (hs : mstep? c m .readyStep = some m') (hp : m'.result = some .pending) :
    m'.s.wake = true ∨
    ∀ v, v < c.n → v ∉ m'.s.yielded → ∃ p ∈ parents c.D v, p ∉ m'.s.droppedRefs := by
  obtain ⟨a1, a2, a3, a4⟩ := readyStep_facts hs
  have hsd : m.s.streamDropped = false := (minv_reachable hc hr).inPoll (by rw [a1]; simp)
  exact micro_parked_not_stalled hc (MReachable.step .readyStep hr hs) a2 (a3.trans hsd) (a4.mpr hp)

/-- non-vacuity on the diamond: after yielding 0 the second poll answers `Pending` with `wake = false`
    (0's ref is live: 1, 2 are blocked by 0, 3 by 1 and 2) … -/
example :
    let m := mexRun exDiamond_I [.pollBegin, .drainStep, .readyStep, .pollBegin, .drainStep]
    let m' := mexRun exDiamond_I [.pollBegin, .drainStep, .readyStep, .pollBegin, .drainStep, .readyStep]
    MReachable exDiamond_I m ∧ mstep? exDiamond_I m .readyStep = some m' ∧ m'.result = some .pending ∧
      m'.s.wake = false :=
  ⟨mexRun_reachable (by decide), by decide, by decide, by decide⟩

/-- … and with `drop 0` landing between the registering `drainStep` and `readyStep` the poll still
    answers `Pending` (nothing was drained) but `wake = true`: the left disjunct. -/
example :
    let m := mexRun exDiamond_I [.pollBegin, .drainStep, .readyStep, .pollBegin, .drainStep, .drop 0]
    let m' := mexRun exDiamond_I [.pollBegin, .drainStep, .readyStep, .pollBegin, .drainStep, .drop 0, .readyStep]
    MReachable exDiamond_I m ∧ mstep? exDiamond_I m .readyStep = some m' ∧ m'.result = some .pending ∧
      m'.s.wake = true ∧ m'.s.doneQ = [0] :=
  ⟨mexRun_reachable (by decide), by decide, by decide, by decide, by decide⟩

/-! ### 4. C03 / C02 stream forms -/

/-- **C03 (micro)**: nothing is queued or yielded twice -/
theorem micro_yield_nodup (hc : GoodCfg c) (hr : MReachable c m) : (m.s.readyQ ++ m.s.yielded).Nodup :=
  (minv_reachable hc hr).core.queueNodup

example : MReachable exDiamond_I (mexRun exDiamond_I exMicroDiamond_M) ∧
    (mexRun exDiamond_I (exMicroDiamond_M.take 19)).s.readyQ ++ (mexRun exDiamond_I (exMicroDiamond_M.take 19)).s.yielded
      = [3, 0, 2, 1] :=
  ⟨mexRun_reachable (by decide), by decide⟩

/-- **C02 (micro)**: a function is queued / yielded only after the `FnRef`s of all its ancestors were dropped -/
theorem micro_yield_after_ancestors (hc : GoodCfg c) (hr : MReachable c m) {u v : Nat}
    (hv : v ∈ m.s.readyQ ∨ v ∈ m.s.yielded) (huv : ReachP c.D u v) :
    u ∈ m.s.droppedRefs ∧ u ∉ m.s.live := by
  have hi := (minv_reachable hc hr).core
  have key : ∀ w, (w ∈ m.s.readyQ ∨ w ∈ m.s.yielded) → ∀ p, IsEdge c.D p w →
      (p ∈ m.s.droppedRefs ∧ p ∉ m.s.live) ∧ p ∈ m.s.yielded := by
    intro w hw p hpw
    have hd := hi.doneDropped p (Or.inl (hi.ready w hw p (mem_parents.mpr hpw)))
    exact ⟨⟨hd, fun hl => hi.liveNotDropped p hl hd⟩, hi.droppedYielded p hd⟩
  induction huv with
  | edge he => exact (key _ hv _ he).1
  | tail _ he ih => exact ih (Or.inr (key _ hv _ he).2)

/-- non-vacuity: in the diamond run node 3 sits in the ready queue mid-poll (after the `drainStep`
    that released 1); its proper ancestor 0 was dropped inside an earlier poll -/
example :
    let m := mexRun exDiamond_I (exMicroDiamond_M.take 19)
    MReachable exDiamond_I m ∧ m.pc = .draining ∧ 3 ∈ m.s.readyQ ∧ ReachP exDiamond_I.D 0 3 ∧
      0 ∈ m.s.droppedRefs :=
  ⟨mexRun_reachable (by decide), by decide, by decide,
   ReachP.tail (ReachP.edge ⟨⟨0, 1, .logic⟩, by decide, rfl, rfl⟩) ⟨⟨1, 3, .logic⟩, by decide, rfl, rfl⟩,
   by decide⟩

/-- **C01 (micro)**: two functions ordered by the scheduling graph never have live `FnRef`s together -/
theorem micro_no_ancestor_live (hc : GoodCfg c) (hr : MReachable c m) {u v : Nat}
    (hu : u ∈ m.s.live) (hv : v ∈ m.s.live) : ¬ ReachP c.D u v := by
  intro huv
  have hi := (minv_reachable hc hr).core
  exact (micro_yield_after_ancestors hc hr (Or.inr (hi.liveYielded v hv)) huv).2 hu

/-- non-vacuity: two live refs at once (the unordered nodes 1 and 2), reached with a mid-poll drop -/
example :
    let m := mexRun exDiamond_I (exMicroDiamond_M.take 11)
    MReachable exDiamond_I m ∧ 1 ∈ m.s.live ∧ 2 ∈ m.s.live :=
  ⟨mexRun_reachable (by decide), by decide, by decide⟩

/-! ### 5. refinement -/

/-- **refinement, one poll**: from an idle, undropped micro state the drop-free schedule
    `pollBegin ; drainStep^(|doneQ|+1) ; readyStep` is enabled and yields exactly `spoll c true m.s`:
    the same state (modulo `pc`/`result` and the ghost `lastPending`, which the atomic model sets in
    the wrapper `sipoll`) and the same result. -/
theorem micro_refines_atomic (c : Cfg) (m : MState) (hpc : m.pc = .idle) (hsd : m.s.streamDropped = false) :
    mrun c m (.pollBegin :: (List.replicate (m.s.doneQ.length + 1) .drainStep ++ [.readyStep])) =
      some { s := { (spoll c true m.s).1 with lastPending := decide ((spoll c true m.s).2 = .pending) },
             pc := .idle, result := some (spoll c true m.s).2 } :=
  mrun_poll c m hpc hsd []

/-- the same with a continuation `as`, so that drop-free polls chain -/
theorem micro_refines_atomic_cont (c : Cfg) (m : MState) (hpc : m.pc = .idle)
    (hsd : m.s.streamDropped = false) (as : List MAction) :
    mrun c m (.pollBegin :: (List.replicate (m.s.doneQ.length + 1) .drainStep ++ (.readyStep :: as))) =
      mrun c (afterPoll c m.s) as :=
  mrun_poll c m hpc hsd as

/-- link to the atomic `poll` action for the plain stream (`Strat.non`): `sipoll` is `spoll` plus
    `lastPending` and the wrapper's private `im` -/
theorem micro_refines_sipoll (c : Cfg) (s : SState) (hst : c.strat = .non) (hian : s.im.ian = false)
    (hsig : s.im.sig = false) :
    ∃ i, (sipoll c true s).1 = { (afterPoll c s).s with im := i } ∧ i.ian = false ∧ i.sig = false ∧
      ((sipoll c true s).2.1 = .pending ↔ (afterPoll c s).result = some .pending) :=
  sipoll_non c s hst hian hsig

/-- **refinement, whole runs**: a micro run of the plain stream in which every `drop` happens outside
    a poll is an atomic run: at every idle state the `SState` is (up to the wrapper's `im`) reachable
    in the atomic model. -/
theorem micro_atomic_run (hst : c.strat = .non) (hr : MReachableA c m) (hpc : m.pc = .idle) :
    ∃ s, SReachable c true s ∧ noIm m.s = noIm s :=
  msim_idle hst hr hpc

/-- non-vacuity: a disciplined run on the diamond (drops only between polls) ending idle -/
example :
    let m := mexRunA exDiamond_I
      [.pollBegin, .drainStep, .readyStep, .drop 0, .pollBegin, .drainStep, .drainStep, .readyStep,
       .pollBegin, .drainStep, .readyStep, .drop 2, .drop 1, .pollBegin, .drainStep, .drainStep, .drainStep,
       .readyStep]
    MReachableA exDiamond_I m ∧ exDiamond_I.strat = .non ∧ m.pc = .idle ∧ m.s.yielded = [0, 2, 1, 3] :=
  ⟨mexRunA_reachable (by decide), rfl, by decide, by decide⟩

/-- non-vacuity: on the diamond, with `doneQ = [2, 1]` pending, the drop-free poll needs 3 `drainStep`s -/
example :
    let m := mexRun exDiamond_I [.pollBegin, .drainStep, .readyStep, .drop 0, .pollBegin, .drainStep, .drainStep,
      .readyStep, .pollBegin, .drainStep, .readyStep, .drop 2, .drop 1]
    MReachable exDiamond_I m ∧ m.pc = .idle ∧ m.s.streamDropped = false ∧ m.s.doneQ = [2, 1] ∧
      mrun exDiamond_I m [.pollBegin, .drainStep, .drainStep, .drainStep, .readyStep] =
        some (afterPoll exDiamond_I m.s) ∧
      (spoll exDiamond_I true m.s).2 = .some 3 :=
  ⟨mexRun_reachable (by decide), by decide, by decide, by decide, by decide, by decide⟩

end FG
