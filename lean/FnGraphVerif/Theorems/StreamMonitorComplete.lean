/-
  Theorems/StreamMonitorComplete.lean — COMPLETENESS of the stream monitor: the model-tracking
  monitor `trackStream` (`Model/Monitor.lean`) raises NO FALSE ALARM on runs of the stream model.

  * `strack_complete`: every run of the stream model, shown as the events `sStepEvents` gives
    (`SObsRun`), is accepted by `trackStream` in a non-coop session, and the monitor ends in the
    model's final state.
    SIDE CONDITION ADDED: `GoodCfg x.c`.  The statement as assigned (no hypothesis on the
    configuration) is FALSE: every `poll` event makes the monitor compare the model's `panic` flag
    with `"false"`, and for an ill-formed configuration the stream model itself panics
    (`strack_complete_original_false`: the chain `0 → 1` with the initial counts `[0, 0]`; the
    second poll decrements a zero count).  `GoodCfg` (what `build` guarantees) makes every
    reachable state of the stream model panic-free (`SCore.noPanic`), which is all that is used.
    The EXACT condition is `strack_complete_iff_noPanic`: the monitor accepts every model run iff
    no poll of a reachable undropped state of the stream model panics (`strack_complete_of_noPanic`
    is the theorem under that weakest hypothesis, `noPanic_of_goodCfg` derives it from `GoodCfg`);
    the state-tracking half `strack_follows` needs no hypothesis at all.
  * `strack_complete_from`: the same from any start state that satisfies the stream invariant.
  * `strack_events`: conversely, the stream events (`poll` / `drop` / `intr` / `aborted`) of a
    well-formed accepted trace ARE the events `sStepEvents` shows of the replayed steps — an
    accepted `poll r` has `r` = the model's answer (the texts are injective), an accepted
    `drop f w` has `w` = the model's wake flag.
  * `strack_iff` / `strack_iff_stream`: for well-formed traces, non-coop, `GoodCfg`:
    accepted ⇔ the stream events of the trace are the event list of a run of the stream model.
      ⇒ (`strack_events`) needs well-formedness (the notes do not check that a dropped `FnRef` is
        live), not `GoodCfg`;
      ⇐ (`strack_complete`) needs `GoodCfg`, not well-formedness — every `SObsRun` is well-formed
        (`sobsRun_wf`).
    Events that denote no stream action (`q`, `handout`, `panic`, `other`, …) are ignored by
    `trackStream` (no note, no state change) and shown by no model step: they are filtered out
    (`Ev.isStream`); for traces without such events the filter disappears (`strack_iff_stream`).
-/
import FnGraphVerif.Theorems.StreamMonitor
import FnGraphVerif.Proofs.VStream
namespace FG

/-! ## 1. no false alarm on model runs -/

/-- the monitor follows every model run state by state — no hypothesis at all on the configuration
    (`trackStream` replays `sipoll` / `sdrop` / `sdropStream` deterministically) -/
theorem strack_follows {x : MonCtx} (hcoop : x.coop = false) {s s' : SState} {evs : List Ev}
    (h : SObsRun x s evs s') : (strackRun x { ss := s } evs).1.ss = s' := by
  induction h with
  | nil s => rfl
  | @step s s1 s' evs a hstep rest ih =>
    cases a with
    | poll =>
      obtain ⟨hsd, hs1⟩ := sstep_poll_inv hstep
      subst hs1
      have hev : sStepEvents x.c s .poll ++ evs =
          .poll (pollObsOf (sipoll x.c true s).2.1 (sipoll x.c true s).2.2 (sipoll x.c true s).1.wake) :: evs := rfl
      rw [hev, strackRun_cons, trackStream_poll hcoop]
      exact ih
    | drop f =>
      have hd : sdrop x.c s f = some s1 := hstep
      have hev : sStepEvents x.c s (.drop f) ++ evs =
          .drop f (s.doneRxWaker && !s.streamDropped && decide (s.doneQ.length < x.c.cap)) :: evs := rfl
      rw [hev, strackRun_cons, trackStream_drop]
      simp only [hd, Option.getD_some]
      exact ih
    | dropStream =>
      obtain ⟨hsd, hs1⟩ := sstep_dropStream_inv hstep
      subst hs1
      have hev : sStepEvents x.c s .dropStream ++ evs = .aborted :: evs := rfl
      rw [hev, strackRun_cons, trackStream_aborted]
      exact ih
    | interrupt =>
      have hs1 := sstep_interrupt_inv hstep
      subst hs1
      have hev : sStepEvents x.c s .interrupt ++ evs = .intr :: evs := rfl
      rw [hev, strackRun_cons, trackStream_intr]
      exact ih

/-- the core of completeness, for any step-closed property `P` of model states that makes the polls
    panic-free: a run from a `P` state is accepted.  (The `panic` comparison of a `poll` event is the
    ONLY note of `trackStream` that can fail on a model run.) -/
theorem strack_complete_core {x : MonCtx} (hcoop : x.coop = false) (P : SState → Prop)
    (hstep : ∀ s a s1, P s → sstep? x.c true s a = some s1 → P s1)
    (hpan : ∀ s, P s → s.streamDropped = false → (sipoll x.c true s).1.panic = false)
    {s s' : SState} {evs : List Ev} (h : SObsRun x s evs s') (hP : P s) :
    ∀ n ∈ (strackRun x { ss := s } evs).2, n.ok = true := by
  induction h with
  | nil s => intro n hn; cases hn
  | @step s s1 s' evs a hstep1 rest ih =>
    have ih1 := ih (hstep s a s1 hP hstep1)
    cases a with
    | poll =>
      obtain ⟨hsd, hs1⟩ := sstep_poll_inv hstep1
      subst hs1
      have hev : sStepEvents x.c s .poll ++ evs =
          .poll (pollObsOf (sipoll x.c true s).2.1 (sipoll x.c true s).2.2 (sipoll x.c true s).1.wake) :: evs := rfl
      rw [hev, strackRun_cons, trackStream_poll hcoop]
      intro n hn
      rcases List.mem_append.mp hn with hn | hn
      · simp only [List.mem_cons, List.not_mem_nil, or_false] at hn
        rcases hn with rfl | rfl
        · simp only [Note.ok, beq_iff_eq]
          exact sipoll_pollText x.c true s
        · simp only [Note.ok, beq_iff_eq]
          show toString (sipoll x.c true s).1.panic = "false"
          rw [hpan s hP hsd]; rfl
      · exact ih1 n hn
    | drop f =>
      have hd : sdrop x.c s f = some s1 := hstep1
      have hev : sStepEvents x.c s (.drop f) ++ evs =
          .drop f (s.doneRxWaker && !s.streamDropped && decide (s.doneQ.length < x.c.cap)) :: evs := rfl
      rw [hev, strackRun_cons, trackStream_drop]
      simp only [hd, Option.getD_some]
      intro n hn
      rcases List.mem_append.mp hn with hn | hn
      · simp only [List.mem_singleton] at hn
        subst hn
        simp [Note.ok]
      · exact ih1 n hn
    | dropStream =>
      obtain ⟨hsd, hs1⟩ := sstep_dropStream_inv hstep1
      subst hs1
      have hev : sStepEvents x.c s .dropStream ++ evs = .aborted :: evs := rfl
      rw [hev, strackRun_cons, trackStream_aborted]
      intro n hn
      rcases List.mem_append.mp hn with hn | hn
      · cases hn
      · exact ih1 n hn
    | interrupt =>
      have hs1 := sstep_interrupt_inv hstep1
      subst hs1
      have hev : sStepEvents x.c s .interrupt ++ evs = .intr :: evs := rfl
      rw [hev, strackRun_cons, trackStream_intr]
      intro n hn
      rcases List.mem_append.mp hn with hn | hn
      · cases hn
      · exact ih1 n hn

/-- **Completeness of the stream monitor**, general start state: a run of the stream model from a
    state satisfying the stream invariant is accepted, and the monitor follows it state by state. -/
theorem strack_complete_from {x : MonCtx} (hcoop : x.coop = false) (hg : GoodCfg x.c)
    {s s' : SState} {evs : List Ev} (h : SObsRun x s evs s') (hinv : SInv x.c s) :
    (∀ n ∈ (strackRun x { ss := s } evs).2, n.ok = true) ∧ (strackRun x { ss := s } evs).1.ss = s' := by
  refine ⟨strack_complete_core hcoop (SInv x.c) (fun s a s1 hi hs => sinv_step hg hi hs) ?_ h hinv,
    strack_follows hcoop h⟩
  intro s hi hsd
  exact (sinv_step hg hi (a := .poll) (by simp [sstep?, hsd])).core.noPanic

/-- ORIGINAL STATEMENT (false without `hg`, refuted by `strack_complete_original_false` below):
    `theorem strack_complete {x : MonCtx} (hcoop : x.coop = false) {evs : List Ev} {s : SState}
       (h : SObsRun x (sinit x.c) evs s) :
       (∀ n ∈ (strackRun x { ss := sinit x.c } evs).2, n.ok = true) ∧
       (strackRun x { ss := sinit x.c } evs).1.ss = s`

    **Completeness of the stream monitor**: every run of the stream model, shown as the events
    `sStepEvents` gives, is accepted by `trackStream` (non-coop), and the monitor ends in the same
    model state.  Side condition added: `hg : GoodCfg x.c` (the configuration is one `build`
    produces; without it the MODEL panics and the monitor's `panic` comparison fails). -/
theorem strack_complete {x : MonCtx} (hcoop : x.coop = false) (hg : GoodCfg x.c) {evs : List Ev} {s : SState}
    (h : SObsRun x (sinit x.c) evs s) :
    (∀ n ∈ (strackRun x { ss := sinit x.c } evs).2, n.ok = true) ∧
    (strackRun x { ss := sinit x.c } evs).1.ss = s :=
  strack_complete_from hcoop hg h (sinv_init hg)

/-- from any reachable state of the stream model -/
theorem strack_complete_reachable {x : MonCtx} (hcoop : x.coop = false) (hg : GoodCfg x.c)
    {s s' : SState} {evs : List Ev} (hr : SReachable x.c true s) (h : SObsRun x s evs s') :
    (∀ n ∈ (strackRun x { ss := s } evs).2, n.ok = true) ∧ (strackRun x { ss := s } evs).1.ss = s' :=
  strack_complete_from hcoop hg h (sinv_reachable hg hr)

/-! ### the side condition is needed -/

/-- the chain `0 → 1` with wrong initial counts (`1` is preloaded although it has a predecessor) -/
def exBadCfg_V : Cfg := { D := ⟨2, [⟨0, 1, .logic⟩]⟩, counts0 := [0, 0] }

def exBadCtx_V : MonCtx :=
  { c := exBadCfg_V, decls := [], userD := exBadCfg_V.D, rev := false, control := false,
    interruptible := false, coop := false }

/-- what the harness would see of `poll, drop 0, poll` on it -/
example : sObsEvents exBadCfg_V (sinit exBadCfg_V) [.poll, .drop 0, .poll] =
    [.poll (.some 0), .drop 0 true, .poll (.some 1)] := by decide

/-- the model panics in the second poll (a zero count is decremented), so the monitor's `panic`
    comparison of that poll fails: the last of the five notes -/
example : (strackRun exBadCtx_V { ss := sinit exBadCfg_V }
    [.poll (.some 0), .drop 0 true, .poll (.some 1)]).2.map Note.ok = [true, true, true, true, false] := by
  decide

/-- **the statement without `GoodCfg` is false** -/
theorem strack_complete_original_false :
    ¬ (∀ (x : MonCtx), x.coop = false → ∀ (evs : List Ev) (s : SState), SObsRun x (sinit x.c) evs s →
        (∀ n ∈ (strackRun x { ss := sinit x.c } evs).2, n.ok = true) ∧
        (strackRun x { ss := sinit x.c } evs).1.ss = s) := by
  intro H
  have hsome : (srun exBadCtx_V.c true (sinit exBadCtx_V.c) [.poll, .drop 0, .poll]).isSome = true := by decide
  obtain ⟨s', hs'⟩ := Option.isSome_iff_exists.mp hsome
  have hrun := sobsRun_of_srun exBadCtx_V _ _ _ hs'
  have hall := List.all_eq_true.mpr (H exBadCtx_V rfl _ _ hrun).1
  have hfalse : ((strackRun exBadCtx_V { ss := sinit exBadCtx_V.c }
      (sObsEvents exBadCtx_V.c (sinit exBadCtx_V.c) [.poll, .drop 0, .poll])).2.all Note.ok) = false := by decide
  rw [hfalse] at hall
  cases hall

/-- and `exBadCfg_V` is indeed not a `GoodCfg` (its counts are not the in-degrees) -/
example : ¬ GoodCfg exBadCfg_V := fun h => absurd (h.counts 1) (by decide)

/-! ### the weakest side condition, exactly

  `GoodCfg` is the hypothesis every other theorem of the project uses; what the proof needs of it is
  only that no poll of a reachable (undropped) state of the stream model panics — and that is also
  NECESSARY for the monitor to accept every model run. -/

/-- with the weakest hypothesis: no reachable state of the stream model panics in a poll -/
theorem strack_complete_of_noPanic {x : MonCtx} (hcoop : x.coop = false)
    (hnp : ∀ t, SReachable x.c true t → t.streamDropped = false → (sipoll x.c true t).1.panic = false)
    {evs : List Ev} {s : SState} (h : SObsRun x (sinit x.c) evs s) :
    (∀ n ∈ (strackRun x { ss := sinit x.c } evs).2, n.ok = true) ∧
    (strackRun x { ss := sinit x.c } evs).1.ss = s :=
  ⟨strack_complete_core hcoop (SReachable x.c true) (fun _ a _ hr hs => SReachable.step a hr hs) hnp h
    SReachable.init, strack_follows hcoop h⟩

/-- **the side condition, exactly**: in a non-coop context the monitor accepts every run of the
    stream model iff no poll of a reachable undropped state of the stream model panics -/
theorem strack_complete_iff_noPanic {x : MonCtx} (hcoop : x.coop = false) :
    (∀ (evs : List Ev) (s : SState), SObsRun x (sinit x.c) evs s →
        ∀ n ∈ (strackRun x { ss := sinit x.c } evs).2, n.ok = true) ↔
    (∀ t, SReachable x.c true t → t.streamDropped = false → (sipoll x.c true t).1.panic = false) := by
  constructor
  · intro H t hr hsd
    obtain ⟨evs, hrun⟩ := sreachable_obsRun x hr
    have hstep : sstep? x.c true t .poll = some (sipoll x.c true t).1 := by simp [sstep?, hsd]
    have hrun2 := hrun.snoc hstep
    have hok := H _ _ hrun2
    rw [strackRun_append] at hok
    have hst : (strackRun x { ss := sinit x.c } evs).1 = { ss := t } := by
      have := strack_follows hcoop hrun
      cases hh : (strackRun x { ss := sinit x.c } evs).1 with
      | mk ss => rw [hh] at this; simp only at this; rw [this]
    rw [hst] at hok
    have hev : sStepEvents x.c t .poll =
        [.poll (pollObsOf (sipoll x.c true t).2.1 (sipoll x.c true t).2.2 (sipoll x.c true t).1.wake)] := rfl
    rw [hev] at hok
    have hmem : Note.cmp "S-poll"
        ((Ev.poll (pollObsOf (sipoll x.c true t).2.1 (sipoll x.c true t).2.2 (sipoll x.c true t).1.wake)).text ++ " panic")
        (toString (sipoll x.c true t).1.panic) "false" ∈
        (strackRun x { ss := t }
          [.poll (pollObsOf (sipoll x.c true t).2.1 (sipoll x.c true t).2.2 (sipoll x.c true t).1.wake)]).2 := by
      rw [strackRun_cons, trackStream_poll hcoop]
      simp
    have := hok _ (List.mem_append_right _ hmem)
    simp only [Note.ok, beq_iff_eq] at this
    exact toString_eq_false_V this
  · intro hnp evs s h
    exact (strack_complete_of_noPanic hcoop hnp h).1

/-- `GoodCfg` implies the exact condition -/
theorem noPanic_of_goodCfg {c : Cfg} (hg : GoodCfg c) :
    ∀ t, SReachable c true t → t.streamDropped = false → (sipoll c true t).1.panic = false := by
  intro t hr hsd
  exact (sinv_step hg (sinv_reachable hg hr) (a := .poll) (by simp [sstep?, hsd])).core.noPanic

/-! ### non-vacuity: the diamond -/

/-- the 11 events of `exEvs_R_R_R` (`Theorems/StreamMonitor.lean`) are an `SObsRun` of the diamond:
    polls answering `Some` / `Pending`, drops with and without wake-up, a signal, an early drop of
    the stream and a drop after it -/
theorem exObsRun_V : ∃ s, SObsRun exCtx_R_R_R (sinit exCtx_R_R_R.c) exEvs_R_R_R s ∧ s.yielded = [0, 2, 1, 3] := by
  have hev : sObsEvents exCtx_R_R_R.c (sinit exCtx_R_R_R.c) exActs_R_R_R = exEvs_R_R_R := by decide
  have hsome : ((srun exCtx_R_R_R.c true (sinit exCtx_R_R_R.c) exActs_R_R_R).any
      (fun s => s.yielded == [0, 2, 1, 3])) = true := by decide
  cases hs : srun exCtx_R_R_R.c true (sinit exCtx_R_R_R.c) exActs_R_R_R with
  | none => rw [hs] at hsome; cases hsome
  | some s' =>
    rw [hs] at hsome
    have hrun := sobsRun_of_srun exCtx_R_R_R _ _ _ hs
    rw [hev] at hrun
    exact ⟨s', hrun, by simpa using hsome⟩

/-- the theorem applied: the 11 events are accepted (14 comparisons, all agree) and the monitor ends
    in the model's final state, which has yielded `0, 2, 1, 3` -/
example : (∀ n ∈ (strackRun exCtx_R_R_R { ss := sinit exCtx_R_R_R.c } exEvs_R_R_R).2, n.ok = true) ∧
    (strackRun exCtx_R_R_R { ss := sinit exCtx_R_R_R.c } exEvs_R_R_R).2.length = 14 ∧
    (strackRun exCtx_R_R_R { ss := sinit exCtx_R_R_R.c } exEvs_R_R_R).1.ss.yielded = [0, 2, 1, 3] := by
  obtain ⟨s, hrun, hy⟩ := exObsRun_V
  obtain ⟨h1, h2⟩ := strack_complete (x := exCtx_R_R_R) rfl exDiamond_good_I hrun
  exact ⟨h1, by decide, by rw [h2]; exact hy⟩

/-- the interruptible diamond (`FinishCurrent`): park, signal, drop, `Interrupted(Some 2)`, `None` -/
example : ∀ n ∈ (strackRun exCtxI_R_R_R { ss := sinit exCtxI_R_R_R.c }
    (sObsEvents exCtxI_R_R_R.c (sinit exCtxI_R_R_R.c)
      [.poll, .poll, .interrupt, .drop 0, .poll, .poll, .drop 2])).2, n.ok = true := by
  have hsome : (srun exCtxI_R_R_R.c true (sinit exCtxI_R_R_R.c)
      [.poll, .poll, .interrupt, .drop 0, .poll, .poll, .drop 2]).isSome = true := by decide
  obtain ⟨s', hs'⟩ := Option.isSome_iff_exists.mp hsome
  exact (strack_complete (x := exCtxI_R_R_R) rfl exCtxI_good_R_R_R.good
    (sobsRun_of_srun exCtxI_R_R_R _ _ _ hs')).1

/-! ## 2. the converse: accepted events are the events of the replayed steps -/

/-- every run of the stream model shows a well-formed trace -/
theorem sobsRun_wf {x : MonCtx} {s s' : SState} {evs : List Ev} (h : SObsRun x s evs s') :
    wfStreamFrom s.live s.streamDropped evs = true := by
  induction h with
  | nil s => rfl
  | @step s s1 s' evs a hstep rest ih =>
    cases a with
    | poll =>
      obtain ⟨hsd, hs1⟩ := sstep_poll_inv hstep
      subst hs1
      obtain ⟨hl, hd⟩ := sipoll_live_obs x.c s
      rw [hl, hd] at ih
      show wfStreamFrom s.live s.streamDropped (.poll _ :: evs) = true
      simp only [wfStreamFrom, Bool.and_eq_true, Bool.not_eq_true']
      exact ⟨hsd, ih⟩
    | drop f =>
      obtain ⟨hf, hl, hd⟩ := sdrop_some_inv (show sdrop x.c s f = some s1 from hstep)
      rw [hl, hd] at ih
      show wfStreamFrom s.live s.streamDropped (.drop f _ :: evs) = true
      simp only [wfStreamFrom, hf, decide_true, Bool.true_and]
      exact ih
    | dropStream =>
      obtain ⟨hsd, hs1⟩ := sstep_dropStream_inv hstep
      subst hs1
      show wfStreamFrom s.live s.streamDropped (.aborted :: evs) = true
      simp only [wfStreamFrom, Bool.and_eq_true, Bool.not_eq_true']
      exact ⟨hsd, ih⟩
    | interrupt =>
      have hs1 := sstep_interrupt_inv hstep
      subst hs1
      show wfStreamFrom s.live s.streamDropped (.intr :: evs) = true
      simp only [wfStreamFrom]
      exact ih

/-- a model run shows stream events only -/
theorem sobsRun_isStream {x : MonCtx} {s s' : SState} {evs : List Ev} (h : SObsRun x s evs s') :
    ∀ e ∈ evs, e.isStream = true := by
  induction h with
  | nil s => intro e he; cases he
  | @step s s1 s' evs a hstep rest ih =>
    intro e he
    rcases List.mem_append.mp he with he | he
    · cases a <;> (simp only [sStepEvents, List.mem_singleton] at he; subst he; rfl)
    · exact ih e he

/-- **accepted stream events are model events** (general start state): in a non-coop session the
    stream events of a well-formed accepted trace are exactly the events `sStepEvents` shows of the
    steps the monitor replayed (no hypothesis on the configuration). -/
theorem strack_events_from {x : MonCtx} (hcoop : x.coop = false) {evs : List Ev} :
    ∀ {t : STrackSt}, wfStreamFrom t.ss.live t.ss.streamDropped evs = true →
      (∀ n ∈ (strackRun x t evs).2, n.ok = true) →
      SObsRun x t.ss (evs.filter Ev.isStream) (strackRun x t evs).1.ss := by
  induction evs with
  | nil => intro t _ _; exact SObsRun.nil _
  | cons e es ih =>
    intro t hwf hok
    rw [strackRun_cons] at hok ⊢
    have hok1 : ∀ n ∈ (trackStream x t e).2, n.ok = true := fun n hn => hok n (List.mem_append_left _ hn)
    have hok2 : ∀ n ∈ (strackRun x (trackStream x t e).1 es).2, n.ok = true :=
      fun n hn => hok n (List.mem_append_right _ hn)
    show SObsRun x t.ss ((e :: es).filter Ev.isStream) (strackRun x (trackStream x t e).1 es).1.ss
    cases e with
    | poll r =>
      simp only [wfStreamFrom, Bool.and_eq_true, Bool.not_eq_true'] at hwf
      obtain ⟨hsd, hwf'⟩ := hwf
      rw [trackStream_poll hcoop] at hok1 hok2 ⊢
      have htext := hok1 _ (List.mem_cons_self ..)
      simp only [Note.ok, beq_iff_eq] at htext
      have hobs := pollObsOf_of_text htext
      have hstep : sstep? x.c true t.ss .poll = some (sipoll x.c true t.ss).1 := by simp [sstep?, hsd]
      obtain ⟨hl, hd⟩ := sipoll_live_obs x.c t.ss
      have hrest := ih (t := { t with ss := (sipoll x.c true t.ss).1 })
        (by show wfStreamFrom (sipoll x.c true t.ss).1.live (sipoll x.c true t.ss).1.streamDropped es = true
            rw [hl, hd, hobs]; exact hwf') hok2
      have := SObsRun.step (x := x) .poll hstep hrest
      rw [List.filter_cons_of_pos (by rfl)]
      have hev : sStepEvents x.c t.ss .poll = [.poll r] := by
        show [Ev.poll (pollObsOf _ _ _)] = _
        rw [hobs]
      rw [hev] at this
      exact this
    | drop f w =>
      simp only [wfStreamFrom, Bool.and_eq_true, decide_eq_true_eq] at hwf
      obtain ⟨hf, hwf'⟩ := hwf
      obtain ⟨s1, hs1⟩ : ∃ s1, sdrop x.c t.ss f = some s1 := by
        rw [sdrop_eq]; simp only [hf, not_true_eq_false, if_false]; split <;> exact ⟨_, rfl⟩
      obtain ⟨_, hl, hd⟩ := sdrop_some_inv hs1
      rw [trackStream_drop] at hok1 hok2 ⊢
      simp only [hs1, Option.getD_some] at hok2 ⊢
      have hw := hok1 _ (List.mem_cons_self ..)
      simp only [Note.ok, beq_iff_eq] at hw
      have hw' := wokenText_inj hw
      have hstep : sstep? x.c true t.ss (.drop f) = some s1 := hs1
      have hrest := ih (t := { t with ss := s1 })
        (by show wfStreamFrom s1.live s1.streamDropped es = true
            rw [hl, hd]; exact hwf') hok2
      have := SObsRun.step (x := x) (.drop f) hstep hrest
      rw [List.filter_cons_of_pos (by rfl)]
      have hev : sStepEvents x.c t.ss (.drop f) = [.drop f w] := by
        show [Ev.drop f _] = _
        rw [hw']
      rw [hev] at this
      exact this
    | intr =>
      simp only [wfStreamFrom] at hwf
      have hstep : sstep? x.c true t.ss .interrupt = some { t.ss with im := { t.ss.im with sent := true } } := rfl
      rw [trackStream_intr] at hok2 ⊢
      have hrest := ih (t := { t with ss := { t.ss with im := { t.ss.im with sent := true } } }) hwf hok2
      rw [List.filter_cons_of_pos (by rfl)]
      exact SObsRun.step (x := x) .interrupt hstep hrest
    | aborted =>
      simp only [wfStreamFrom, Bool.and_eq_true, Bool.not_eq_true'] at hwf
      obtain ⟨hsd, hwf'⟩ := hwf
      have hstep : sstep? x.c true t.ss .dropStream = some (sdropStream t.ss) := by simp [sstep?, hsd]
      rw [trackStream_aborted] at hok2 ⊢
      have hrest := ih (t := { t with ss := sdropStream t.ss }) hwf' hok2
      rw [List.filter_cons_of_pos (by rfl)]
      exact SObsRun.step (x := x) .dropStream hstep hrest
    | handout f =>
      rw [List.filter_cons_of_neg (by simp [Ev.isStream, Ev.saction?])]
      exact ih (t := t) (by simpa [wfStreamFrom] using hwf) hok2
    | invoke f =>
      rw [List.filter_cons_of_neg (by simp [Ev.isStream, Ev.saction?])]
      exact ih (t := t) (by simpa [wfStreamFrom] using hwf) hok2
    | fin f ok =>
      rw [List.filter_cons_of_neg (by simp [Ev.isStream, Ev.saction?])]
      exact ih (t := t) (by simpa [wfStreamFrom] using hwf) hok2
    | q =>
      rw [List.filter_cons_of_neg (by simp [Ev.isStream, Ev.saction?])]
      exact ih (t := t) (by simpa [wfStreamFrom] using hwf) hok2
    | retOutcome a b c d e =>
      rw [List.filter_cons_of_neg (by simp [Ev.isStream, Ev.saction?])]
      exact ih (t := t) (by simpa [wfStreamFrom] using hwf) hok2
    | retErr f =>
      rw [List.filter_cons_of_neg (by simp [Ev.isStream, Ev.saction?])]
      exact ih (t := t) (by simpa [wfStreamFrom] using hwf) hok2
    | panic =>
      rw [List.filter_cons_of_neg (by simp [Ev.isStream, Ev.saction?])]
      exact ih (t := t) (by simpa [wfStreamFrom] using hwf) hok2
    | livelock =>
      rw [List.filter_cons_of_neg (by simp [Ev.isStream, Ev.saction?])]
      exact ih (t := t) (by simpa [wfStreamFrom] using hwf) hok2
    | other =>
      rw [List.filter_cons_of_neg (by simp [Ev.isStream, Ev.saction?])]
      exact ih (t := t) (by simpa [wfStreamFrom] using hwf) hok2

/-- from the initial state -/
theorem strack_events {x : MonCtx} (hcoop : x.coop = false) {evs : List Ev}
    (hwf : wfStreamTrace evs = true)
    (hok : ∀ n ∈ (strackRun x { ss := sinit x.c } evs).2, n.ok = true) :
    SObsRun x (sinit x.c) (evs.filter Ev.isStream) (strackRun x { ss := sinit x.c } evs).1.ss :=
  strack_events_from (x := x) (t := { ss := sinit x.c }) hcoop hwf hok

/-! ## 3. accepted ⇔ model run -/

/-- **`strack_iff`**: non-coop, `GoodCfg`, well-formed trace: the trace is accepted by `trackStream`
    iff its stream events are the event list of a run of the stream model; the run then ends in the
    monitor's final state.
    ⇒ is `strack_events` (uses `hwf`, not `hg`); ⇐ is `strack_complete` (uses `hg`, not `hwf`). -/
theorem strack_iff {x : MonCtx} (hcoop : x.coop = false) (hg : GoodCfg x.c) {evs : List Ev}
    (hwf : wfStreamTrace evs = true) :
    (∀ n ∈ (strackRun x { ss := sinit x.c } evs).2, n.ok = true) ↔
      ∃ s, SObsRun x (sinit x.c) (evs.filter Ev.isStream) s := by
  constructor
  · intro hok
    exact ⟨_, strack_events hcoop hwf hok⟩
  · rintro ⟨s, hrun⟩
    have := (strack_complete hcoop hg hrun).1
    rw [strackRun_filter] at this
    exact this

/-- the run of `strack_iff` is unique: it ends in the monitor's final state -/
theorem strack_iff_state {x : MonCtx} (hcoop : x.coop = false) (hg : GoodCfg x.c) {evs : List Ev} {s : SState}
    (hrun : SObsRun x (sinit x.c) (evs.filter Ev.isStream) s) :
    (strackRun x { ss := sinit x.c } evs).1.ss = s := by
  have := (strack_complete hcoop hg hrun).2
  rw [strackRun_filter] at this
  exact this

/-- for traces of stream events only, with well-formedness moved to the left-hand side (every model
    run is well-formed): well-formed and accepted ⇔ the event list of a run of the stream model -/
theorem strack_iff_stream {x : MonCtx} (hcoop : x.coop = false) (hg : GoodCfg x.c) {evs : List Ev}
    (hev : ∀ e ∈ evs, e.isStream = true) :
    (wfStreamTrace evs = true ∧ ∀ n ∈ (strackRun x { ss := sinit x.c } evs).2, n.ok = true) ↔
      ∃ s, SObsRun x (sinit x.c) evs s := by
  constructor
  · rintro ⟨hwf, hok⟩
    have := strack_events hcoop hwf hok
    rw [filter_isStream_eq_self hev] at this
    exact ⟨_, this⟩
  · rintro ⟨s, hrun⟩
    exact ⟨sobsRun_wf hrun, (strack_complete hcoop hg hrun).1⟩

/-- a trace with other events in it is accepted iff it is well-formed … (the general form with
    well-formedness on the left) -/
theorem strack_iff_wf {x : MonCtx} (hcoop : x.coop = false) (hg : GoodCfg x.c) {evs : List Ev} :
    (wfStreamTrace evs = true ∧ ∀ n ∈ (strackRun x { ss := sinit x.c } evs).2, n.ok = true) ↔
      ∃ s, SObsRun x (sinit x.c) (evs.filter Ev.isStream) s := by
  constructor
  · rintro ⟨hwf, hok⟩
    exact (strack_iff hcoop hg hwf).mp hok
  · rintro ⟨s, hrun⟩
    have hwf : wfStreamTrace evs = true := by
      have := sobsRun_wf hrun
      unfold wfStreamTrace
      rw [← wfStreamFrom_filter]
      exact this
    exact ⟨hwf, (strack_iff hcoop hg hwf).mpr ⟨s, hrun⟩⟩

/- non-vacuity of the equivalence, both directions, on the diamond -/
example : (wfStreamTrace exEvs_R_R_R = true ∧
      ∀ n ∈ (strackRun exCtx_R_R_R { ss := sinit exCtx_R_R_R.c } exEvs_R_R_R).2, n.ok = true) ↔
    ∃ s, SObsRun exCtx_R_R_R (sinit exCtx_R_R_R.c) exEvs_R_R_R s :=
  strack_iff_stream (x := exCtx_R_R_R) rfl exDiamond_good_I (by decide)

/-- ⇒ used: the accepted trace (checked by evaluation) is a model run -/
example : ∃ s, SObsRun exCtx_R_R_R (sinit exCtx_R_R_R.c) exEvs_R_R_R s :=
  (strack_iff_stream (x := exCtx_R_R_R) rfl exDiamond_good_I (by decide)).mp
    ⟨by decide, List.all_eq_true.mp (by decide)⟩

/-- a trace with a wrong wake flag (`drop 0 false` instead of `drop 0 true`) is rejected, hence — by
    the equivalence — not the event list of any run of the model -/
example : ¬ ∃ s, SObsRun exCtx_R_R_R (sinit exCtx_R_R_R.c)
    [.poll (.some 0), .poll (.pending false), .drop 0 false] s := by
  intro h
  have := ((strack_iff_stream (x := exCtx_R_R_R) rfl exDiamond_good_I (by decide)).mpr h).2
  have hall := List.all_eq_true.mpr this
  revert hall
  decide

/-- events that denote no stream action do not matter -/
example : ∀ n ∈ (strackRun exCtx_R_R_R { ss := sinit exCtx_R_R_R.c }
    (.q :: .other :: exEvs_R_R_R ++ [.panic])).2, n.ok = true := by
  obtain ⟨s, hrun, _⟩ := exObsRun_V
  refine (strack_iff (x := exCtx_R_R_R) rfl exDiamond_good_I (by decide)).mpr ⟨s, ?_⟩
  have : (Ev.q :: Ev.other :: exEvs_R_R_R ++ [Ev.panic]).filter Ev.isStream = exEvs_R_R_R := by decide
  rw [this]
  exact hrun

end FG
