/-
  Theorems/C15.lean — re-running a graph, and running it twice at the same time (C15, C20).

  In the model a built graph is an immutable value and a run is a function of
  (configuration, actions) starting from `init c`, where `c` is computed from the graph and the
  call's options only.  The frame theorems below make explicit that every single-run theorem
  therefore applies to the k-th run of any history and to each component of any interleaving of
  two runs.  What they do NOT show is that the *implementation* keeps no state between or across
  runs — that is what the H-hist / pair facets of the correspondence check exercise on one real
  graph value (DESIGN.md sections 5.2, 6 C15/C20).
-/
import FnGraphVerif.Model.Settle
namespace FG

/-- running an action list from a reachable state stays reachable -/
theorem run_reachable {c : Cfg} {s s' : PState} (hr : Reachable c s) {as : List Action}
    (h : run c s as = some s') : Reachable c s' := by
  induction as generalizing s with
  | nil =>
    have h1 : some s = some s' := h
    cases h1; exact hr
  | cons a as ih =>
    simp only [run] at h
    split at h
    · cases h
    · rename_i s1 hs1
      exact ih (Reachable.step a hr hs1) h

/-- conversely every reachable state is the result of running some action list from `init` -/
theorem reachable_run {c : Cfg} {s : PState} (hr : Reachable c s) : ∃ as, run c (init c) as = some s := by
  induction hr with
  | init => exact ⟨[], rfl⟩
  | step a _ h ih =>
    obtain ⟨as, has⟩ := ih
    refine ⟨as ++ [a], ?_⟩
    have key : ∀ (l : List Action) (s0 s1 : PState), run c s0 l = some s1 →
        run c s0 (l ++ [a]) = run c s1 [a] := by
      intro l
      induction l with
      | nil =>
        intro s0 s1 h0
        have h1 : some s0 = some s1 := h0
        cases h1; rfl
      | cons b l ihl =>
        intro s0 s1 h0
        simp only [run, List.cons_append] at h0 ⊢
        cases hs2 : step? c s0 b with
        | none => rw [hs2] at h0; cases h0
        | some s2 => rw [hs2] at h0; exact ihl s2 s1 h0
    rw [key as _ _ has]; simp [run, h]

/-- a history of runs on one graph value: one `(configuration, actions)` per call -/
def runHistory (hist : List (Cfg × List Action)) : List (Option PState) :=
  hist.map (fun p => run p.1 (init p.1) p.2)

/-- **C15**: the k-th run of any history — whatever the earlier runs did (completed, interrupted,
    failed, abandoned midway) and whatever comes later — is the same run on a fresh graph. -/
theorem runs_independent_of_history (pre post : List (Cfg × List Action)) (c : Cfg) (as : List Action) :
    (runHistory (pre ++ (c, as) :: post))[pre.length]? = some (run c (init c) as) := by
  simp [runHistory]

/-- … and therefore every state of every run of a history is a `Reachable` state of its own
    configuration, so every single-run theorem applies to it. -/
theorem history_states_reachable (hist : List (Cfg × List Action)) (k : Nat) (c : Cfg) (as : List Action)
    (s : PState) (hk : hist[k]? = some (c, as)) (hs : (runHistory hist)[k]? = some (some s)) : Reachable c s := by
  simp only [runHistory, List.getElem?_map, hk, Option.map_some, Option.some.injEq] at hs
  exact run_reachable Reachable.init hs

/-- two runs on one graph, their actions interleaved arbitrarily -/
inductive Reachable2 (c1 c2 : Cfg) : PState × PState → Prop
  | init : Reachable2 c1 c2 (init c1, init c2)
  | left {s1 s1' s2 : PState} (a : Action) : Reachable2 c1 c2 (s1, s2) → step? c1 s1 a = some s1' →
      Reachable2 c1 c2 (s1', s2)
  | right {s1 s2 s2' : PState} (a : Action) : Reachable2 c1 c2 (s1, s2) → step? c2 s2 a = some s2' →
      Reachable2 c1 c2 (s1, s2')

/-- **C20**: under every interleaving each of two simultaneous runs is a run of its own: every
    ordering, exactly-once, termination and outcome theorem holds of it as if it were alone. -/
theorem pair_projects {c1 c2 : Cfg} {p : PState × PState} (h : Reachable2 c1 c2 p) :
    Reachable c1 p.1 ∧ Reachable c2 p.2 := by
  induction h with
  | init => exact ⟨Reachable.init, Reachable.init⟩
  | left a _ hs ih => exact ⟨Reachable.step a ih.1 hs, ih.2⟩
  | right a _ hs ih => exact ⟨ih.1, Reachable.step a ih.2 hs⟩

/-- … and conversely no interleaving is excluded: any two single-run states can be reached together. -/
theorem pair_any {c1 c2 : Cfg} {s1 s2 : PState} (h1 : Reachable c1 s1) (h2 : Reachable c2 s2) :
    Reachable2 c1 c2 (s1, s2) := by
  induction h1 with
  | init =>
    induction h2 with
    | init => exact Reachable2.init
    | step a _ hs ih => exact Reachable2.right a ih hs
  | step a _ hs ih => exact Reachable2.left a ih hs

end FG
