/-
  Theorems/SpecFast.lean — the bit-mask forms of the C11/C12 predicates (`Model/Spec.lean`,
  used by the driver for graphs with more than 34 functions) are correct:

  * `reachMasks g ord.reverse` is strict reachability `ReachP` whenever `ord` passes `topoOrderB`;
  * `topoOrderB` implies acyclicity;
  * `builtSoundFastB = builtSoundB`, `builtDirectionFastB ↔` the direction half of `builtOrderB`
    (both under well-formedness and the order check the fast predicates perform themselves);
  * the MODEL satisfies both fast predicates for every input, with `topoOrd := topo G.graph`.
-/
import FnGraphVerif.Theorems.SpecLink
import FnGraphVerif.Theorems.C14
import FnGraphVerif.Proofs.YMasks
namespace FG
open YM

/-! ### 1. `reachMasks` is strict reachability -/

/-- the mask of every node is exactly its set of strict descendants (`v < g.n` is not even needed) -/
theorem reachMasks_spec_all {g : Dag} (hwf : WF g) {ord : List Nat} (h : topoOrderB g ord = true)
    {u : Nat} (hu : u < g.n) (v : Nat) :
    maskBit (reachMasks g ord.reverse) u v = true ↔ ReachP g u v := by
  unfold maskBit
  exact (maskInv_reachMasks hwf h).2 u (List.mem_reverse.mpr ((topoOrderB_mem_iff h).mpr hu)) v

theorem reachMasks_spec {g : Dag} (hwf : WF g) {ord : List Nat} (h : topoOrderB g ord = true) :
    ∀ u v, u < g.n → v < g.n → (maskBit (reachMasks g ord.reverse) u v = true ↔ ReachP g u v) :=
  fun _ v hu _ => reachMasks_spec_all hwf h hu v

/-- the mask list has one entry per node -/
theorem reachMasks_length {g : Dag} (hwf : WF g) {ord : List Nat} (h : topoOrderB g ord = true) :
    (reachMasks g ord.reverse).length = g.n := (maskInv_reachMasks hwf h).1

/-- the masks agree with the BFS-based `reachPlus` of `Model/Spec.lean` -/
theorem maskBit_eq_reachPlus {g : Dag} (hg : GoodG g) {ord : List Nat} (h : topoOrderB g ord = true)
    {u : Nat} (hu : u < g.n) (v : Nat) :
    maskBit (reachMasks g ord.reverse) u v = reachPlus g u v := by
  rw [Bool.eq_iff_iff, reachMasks_spec_all hg.wf h hu, reachPlus_iff hg hu]

/-- between distinct nodes the masks agree with the (reflexive) path test -/
theorem maskBit_eq_hasPath {g : Dag} (hwf : WF g) {ord : List Nat} (h : topoOrderB g ord = true)
    {u v : Nat} (hu : u < g.n) (huv : u ≠ v) :
    maskBit (reachMasks g ord.reverse) u v = hasPath g u v := by
  rw [Bool.eq_iff_iff, reachMasks_spec_all hwf h hu, hasPath_iff_reach hwf hu]
  constructor
  · exact Reach.of_reachP
  · intro hr
    rcases hr.cases_head with heq | hp
    · exact absurd heq huv
    · exact hp

-- non-vacuity: the diamond `0 → {1, 2} → 3` with order `[0, 1, 2, 3]`; masks are computed along `[3, 2, 1, 0]`
def exDia_Y : Dag := ⟨4, [⟨0, 1, .logic⟩, ⟨0, 2, .logic⟩, ⟨1, 3, .data⟩, ⟨2, 3, .logic⟩]⟩
theorem exDia_wf_Y : WF exDia_Y := by
  intro e he
  simp only [exDia_Y, List.mem_cons, List.not_mem_nil, or_false] at he
  rcases he with rfl | rfl | rfl | rfl <;> decide
example : topoOrderB exDia_Y [0, 1, 2, 3] = true ∧ topoOrderB exDia_Y [0, 2, 1, 3] = true ∧
    topoOrderB exDia_Y (topo exDia_Y) = true := by decide
example : reachMasks exDia_Y [3, 2, 1, 0] = [14, 8, 8, 0] := by decide
example : reachMasks exDia_Y [0, 1, 2, 3].reverse = [14, 8, 8, 0] ∧
    reachMasks exDia_Y [0, 2, 1, 3].reverse = [14, 8, 8, 0] := by decide
example : maskBit (reachMasks exDia_Y [0, 1, 2, 3].reverse) 0 3 = true ∧
    maskBit (reachMasks exDia_Y [0, 1, 2, 3].reverse) 1 2 = false ∧
    maskBit (reachMasks exDia_Y [0, 1, 2, 3].reverse) 3 0 = false ∧
    maskBit (reachMasks exDia_Y [0, 1, 2, 3].reverse) 2 2 = false := by decide
example : ReachP exDia_Y 0 3 :=
  (reachMasks_spec exDia_wf_Y (ord := [0, 1, 2, 3]) (by decide) 0 3 (by decide) (by decide)).mp (by decide)
example : ¬ ReachP exDia_Y 1 2 := fun hr =>
  absurd ((reachMasks_spec exDia_wf_Y (ord := [0, 1, 2, 3]) (by decide) 1 2 (by decide) (by decide)).mpr hr) (by decide)
-- the order matters: along a NON-topological order (parents first) the masks miss the two-step path `0 ⇝ 3`
example : topoOrderB exDia_Y [3, 2, 1, 0] = false ∧
    maskBit (reachMasks exDia_Y [3, 2, 1, 0].reverse) 0 3 = false ∧ reachPlus exDia_Y 0 3 = true := by decide

/-! ### 2. a graph with a valid order is acyclic -/

theorem topoOrderB_acyclic {g : Dag} (hwf : WF g) {ord : List Nat} (h : topoOrderB g ord = true) :
    isAcyclicB g = true :=
  (isAcyclicB_iff hwf).mpr (topoOrderB_Acyclic h)

/-- the Prop form (from `Proofs/YMasks.lean`; needs no well-formedness) -/
theorem topoOrderB_acyclic_prop {g : Dag} {ord : List Nat} (h : topoOrderB g ord = true) : Acyclic g :=
  topoOrderB_Acyclic h

/-- along a valid order strict reachability goes forward -/
theorem topoOrderB_reachP_lt {g : Dag} {ord : List Nat} (h : topoOrderB g ord = true) {u v : Nat}
    (hr : ReachP g u v) : idxOf ord u < idxOf ord v := topoOrderB_reachP h hr

example : isAcyclicB exDia_Y = true := topoOrderB_acyclic exDia_wf_Y (ord := [0, 2, 1, 3]) (by decide)
-- contrapositive on the well-formed 3-cycle `exCyc_K`: no arrangement of its nodes is a valid order
example : isAcyclicB exCyc_K = false ∧ topoOrderB exCyc_K [0, 1, 2] = false ∧
    topoOrderB exCyc_K [1, 2, 0] = false ∧ topoOrderB exCyc_K [2, 0, 1] = false := by decide
example (ord : List Nat) : topoOrderB exCyc_K ord = false := by
  cases h : topoOrderB exCyc_K ord with
  | false => rfl
  | true => exact absurd (topoOrderB_acyclic exCyc_wf_K h) (by decide)

/-! ### 3. `builtSoundFastB = builtSoundB` -/

theorem builtSoundFastB_iff {decls : List FnDecl} {user : List Edge} {built : Dag} {ord : List Nat}
    (hwf : WF built) (ht : topoOrderB built ord = true) :
    builtSoundFastB decls user built ord = builtSoundB decls user built := by
  have hac := topoOrderB_acyclic hwf ht
  have hpair : ∀ u, u < built.n → ∀ v, v < built.n →
      (u == v || !conflict (declOf decls u) (declOf decls v)
        || maskBit (reachMasks built ord.reverse) u v || maskBit (reachMasks built ord.reverse) v u)
      = (u == v || !conflict (declOf decls u) (declOf decls v) || hasPath built u v || hasPath built v u) := by
    intro u hu v hv
    by_cases huv : u = v
    · simp [huv]
    · rw [maskBit_eq_hasPath hwf ht hu huv, maskBit_eq_hasPath hwf ht hv (Ne.symm huv)]
  rw [Bool.eq_iff_iff]
  simp only [builtSoundFastB, builtSoundB, Bool.and_eq_true, ht, hac, and_true]
  constructor
  · rintro ⟨h1, h6⟩
    refine ⟨h1, ?_⟩
    simp only [List.all_eq_true, List.mem_range] at h6 ⊢
    intro u hu v hv
    rw [← hpair u hu v hv]; exact h6 u hu v hv
  · rintro ⟨h1, h6⟩
    refine ⟨h1, ?_⟩
    simp only [List.all_eq_true, List.mem_range] at h6 ⊢
    intro u hu v hv
    rw [hpair u hu v hv]; exact h6 u hu v hv

/-- without assuming the order check: the fast predicate implies the BFS one on every well-formed graph -/
theorem builtSoundB_of_fast {decls : List FnDecl} {user : List Edge} {built : Dag} {ord : List Nat}
    (hwf : WF built) (h : builtSoundFastB decls user built ord = true) :
    builtSoundB decls user built = true := by
  have ht : topoOrderB built ord = true := by
    simp only [builtSoundFastB, Bool.and_eq_true] at h
    exact h.1.2
  rw [← builtSoundFastB_iff hwf ht]; exact h

/-- conversely, given any valid order of the observed graph -/
theorem builtSoundFastB_of_builtSoundB {decls : List FnDecl} {user : List Edge} {built : Dag} {ord : List Nat}
    (hwf : WF built) (ht : topoOrderB built ord = true) (h : builtSoundB decls user built = true) :
    builtSoundFastB decls user built ord = true := by
  rw [builtSoundFastB_iff hwf ht]; exact h

/-- WF is NOT implied by the conjuncts of the predicates (`topoOrderB` bounds sources only): an edge
    to a node outside the graph passes the order check -/
example : topoOrderB ⟨2, [⟨0, 1, .logic⟩, ⟨1, 7, .logic⟩]⟩ [0, 1] = true := by decide

-- non-vacuity on the 4-function example build `exG_D2` (edges 0→2, 2→3, data 0→1)
theorem exG_wf_D2_Y : WF exG_D2.graph := by
  intro e he
  simp only [exG_D2, List.mem_cons, List.not_mem_nil, or_false] at he
  rcases he with rfl | rfl | rfl <;> decide
example : builtSoundFastB exB_D2.fns exB_D2.edges exG_D2.graph [0, 1, 2, 3]
    = builtSoundB exB_D2.fns exB_D2.edges exG_D2.graph :=
  builtSoundFastB_iff exG_wf_D2_Y (by decide)
-- accepted with either valid order; refused: a non-order, the data edge dropped (conflicting pair
-- (0,1) left unordered), the data edge relabelled
example : builtSoundFastB exB_D2.fns exB_D2.edges exG_D2.graph [0, 1, 2, 3] = true ∧
    builtSoundFastB exB_D2.fns exB_D2.edges exG_D2.graph [0, 2, 3, 1] = true ∧
    builtSoundFastB exB_D2.fns exB_D2.edges exG_D2.graph [1, 0, 2, 3] = false ∧
    builtSoundFastB exB_D2.fns exB_D2.edges ⟨4, [⟨0, 2, .logic⟩, ⟨2, 3, .contains⟩]⟩ [0, 1, 2, 3] = false ∧
    builtSoundB exB_D2.fns exB_D2.edges ⟨4, [⟨0, 2, .logic⟩, ⟨2, 3, .contains⟩]⟩ = false ∧
    builtSoundFastB exB_D2.fns exB_D2.edges ⟨4, [⟨0, 2, .logic⟩, ⟨2, 3, .contains⟩, ⟨0, 1, .logic⟩]⟩ [0, 1, 2, 3] = false := by
  decide

/-- a 5-function example: `0` writes type 1, `1`/`2` read it, `3` writes type 2, `4` reads 1 and
    writes 2; user edges `0 → 1`, `0 → 2`, `1 → 3`; data edges `0 → 4`, `3 → 4` -/
def exDecls5_Y : List FnDecl := [⟨[], [1], 0⟩, ⟨[1], [], 1⟩, ⟨[1], [], 2⟩, ⟨[], [2], 3⟩, ⟨[1], [2], 4⟩]
def exUser5_Y : List Edge := [⟨0, 1, .logic⟩, ⟨0, 2, .contains⟩, ⟨1, 3, .logic⟩]
def exBuilt5_Y : Dag := ⟨5, exUser5_Y ++ [⟨0, 4, .data⟩, ⟨3, 4, .data⟩]⟩
theorem exBuilt5_wf_Y : WF exBuilt5_Y := by
  intro e he
  simp only [exBuilt5_Y, exUser5_Y, List.cons_append, List.nil_append, List.mem_cons, List.not_mem_nil,
    or_false] at he
  rcases he with rfl | rfl | rfl | rfl | rfl <;> decide
example : builtSoundFastB exDecls5_Y exUser5_Y exBuilt5_Y (topo exBuilt5_Y) = true ∧
    builtSoundB exDecls5_Y exUser5_Y exBuilt5_Y = true ∧
    -- the conflicting pair (3,4) left unordered
    builtSoundFastB exDecls5_Y exUser5_Y ⟨5, exUser5_Y ++ [⟨0, 4, .data⟩]⟩ [0, 1, 2, 3, 4] = false ∧
    builtSoundB exDecls5_Y exUser5_Y ⟨5, exUser5_Y ++ [⟨0, 4, .data⟩]⟩ = false ∧
    -- a data edge between functions that do not conflict
    builtSoundFastB exDecls5_Y exUser5_Y ⟨5, exUser5_Y ++ [⟨0, 4, .data⟩, ⟨3, 4, .data⟩, ⟨1, 2, .data⟩]⟩
      [0, 1, 2, 3, 4] = false := by decide
example : builtSoundFastB exDecls5_Y exUser5_Y exBuilt5_Y [0, 2, 1, 3, 4] = builtSoundB exDecls5_Y exUser5_Y exBuilt5_Y :=
  builtSoundFastB_iff exBuilt5_wf_Y (by decide)

/-! ### 4. `builtDirectionFastB` ↔ the direction half of `builtOrderB` -/

/-- the first conjunct of `builtOrderB`, verbatim -/
def builtDirectionB (decls : List FnDecl) (user : List Edge) (built : Dag) (ranks : List Nat) : Bool :=
  let U : Dag := ⟨built.n, user⟩
  (List.range built.n).all (fun u => (List.range built.n).all (fun v =>
      u == v || !conflict (declOf decls u) (declOf decls v) || hasPath U u v || hasPath U v u
      || (let ru := ranks[u]?.getD 0; let rv := ranks[v]?.getD 0
          let first := decide (ru < rv) || (ru == rv && decide (u < v))
          if first then hasPath built u v else hasPath built v u)))

/-- the second conjunct of `builtOrderB`, verbatim -/
def builtNonRedundantB (built : Dag) : Bool :=
  (List.range built.edges.length).all (fun i =>
      match built.edges[i]? with
      | none => true
      | some e => e.kind != .data || !hasPath ⟨built.n, built.edges.eraseIdx i⟩ e.src e.tgt)

theorem builtOrderB_eq (decls : List FnDecl) (user : List Edge) (built : Dag) (ranks : List Nat) :
    builtOrderB decls user built ranks = (builtDirectionB decls user built ranks && builtNonRedundantB built) := rfl

theorem builtDirectionFastB_iff {decls : List FnDecl} {user : List Edge} {built : Dag} {ranks ord uord : List Nat}
    (hwf : WF built) (hwfU : WF ⟨built.n, user⟩)
    (ht : topoOrderB built ord = true) (htU : topoOrderB ⟨built.n, user⟩ uord = true) :
    builtDirectionFastB decls user built ranks ord uord = builtDirectionB decls user built ranks := by
  have hpair : ∀ u, u < built.n → ∀ v, v < built.n →
      (u == v || !conflict (declOf decls u) (declOf decls v)
        || maskBit (reachMasks ⟨built.n, user⟩ uord.reverse) u v
        || maskBit (reachMasks ⟨built.n, user⟩ uord.reverse) v u
        || (if (decide (ranks[u]?.getD 0 < ranks[v]?.getD 0)
              || (ranks[u]?.getD 0 == ranks[v]?.getD 0 && decide (u < v))) = true
            then maskBit (reachMasks built ord.reverse) u v else maskBit (reachMasks built ord.reverse) v u))
      = (u == v || !conflict (declOf decls u) (declOf decls v)
        || hasPath ⟨built.n, user⟩ u v || hasPath ⟨built.n, user⟩ v u
        || (if (decide (ranks[u]?.getD 0 < ranks[v]?.getD 0)
              || (ranks[u]?.getD 0 == ranks[v]?.getD 0 && decide (u < v))) = true
            then hasPath built u v else hasPath built v u)) := by
    intro u hu v hv
    by_cases huv : u = v
    · simp [huv]
    · rw [maskBit_eq_hasPath hwf ht hu huv, maskBit_eq_hasPath hwf ht hv (Ne.symm huv),
        maskBit_eq_hasPath (g := ⟨built.n, user⟩) hwfU htU hu huv,
        maskBit_eq_hasPath (g := ⟨built.n, user⟩) hwfU htU hv (Ne.symm huv)]
  rw [Bool.eq_iff_iff]
  simp only [builtDirectionFastB, builtDirectionB, Bool.and_eq_true, ht, htU, true_and]
  simp only [List.all_eq_true, List.mem_range]
  constructor
  · intro h u hu v hv
    rw [← hpair u hu v hv]; exact h u hu v hv
  · intro h u hu v hv
    rw [hpair u hu v hv]; exact h u hu v hv

/-- the direction check follows from `builtOrderB` -/
theorem builtDirectionFastB_of_builtOrderB {decls : List FnDecl} {user : List Edge} {built : Dag}
    {ranks ord uord : List Nat} (hwf : WF built) (hwfU : WF ⟨built.n, user⟩)
    (ht : topoOrderB built ord = true) (htU : topoOrderB ⟨built.n, user⟩ uord = true)
    (h : builtOrderB decls user built ranks = true) :
    builtDirectionFastB decls user built ranks ord uord = true := by
  rw [builtOrderB_eq, Bool.and_eq_true] at h
  rw [builtDirectionFastB_iff hwf hwfU ht htU]; exact h.1

/-- conversely: the fast check gives the first conjunct of `builtOrderB` (the order checks are part of
    the fast predicate, so only well-formedness is assumed) -/
theorem builtDirectionB_of_fast {decls : List FnDecl} {user : List Edge} {built : Dag}
    {ranks ord uord : List Nat} (hwf : WF built) (hwfU : WF ⟨built.n, user⟩)
    (h : builtDirectionFastB decls user built ranks ord uord = true) :
    builtDirectionB decls user built ranks = true := by
  have ht : topoOrderB built ord = true ∧ topoOrderB ⟨built.n, user⟩ uord = true := by
    simp only [builtDirectionFastB, Bool.and_eq_true] at h
    exact h.1
  rw [← builtDirectionFastB_iff hwf hwfU ht.1 ht.2]; exact h

/-- both halves together give `builtOrderB` back -/
theorem builtOrderB_of_fast {decls : List FnDecl} {user : List Edge} {built : Dag}
    {ranks ord uord : List Nat} (hwf : WF built) (hwfU : WF ⟨built.n, user⟩)
    (h : builtDirectionFastB decls user built ranks ord uord = true) (hnr : builtNonRedundantB built = true) :
    builtOrderB decls user built ranks = true := by
  rw [builtOrderB_eq, Bool.and_eq_true]
  exact ⟨builtDirectionB_of_fast hwf hwfU h, hnr⟩

-- non-vacuity on `exG_D2` (ranks `[0,0,1,2]`): accepted; the opposite direction `1 → 0` of the data edge refused
theorem exU_wf_D2_Y : WF ⟨exG_D2.graph.n, exB_D2.edges⟩ := by
  intro e he
  have : e = ⟨0, 2, .logic⟩ ∨ e = ⟨2, 3, .contains⟩ := by
    have h2 : exB_D2.edges = [⟨0, 2, .logic⟩, ⟨2, 3, .contains⟩] := by decide
    simpa [h2] using he
  rcases this with rfl | rfl <;> decide
example : builtDirectionFastB exB_D2.fns exB_D2.edges exG_D2.graph exG_D2.ranks [0, 1, 2, 3] [1, 0, 2, 3] = true :=
  builtDirectionFastB_of_builtOrderB exG_wf_D2_Y exU_wf_D2_Y (by decide) (by decide)
    (build_builtOrderB exB_reach_D2 exG_build_D2)
example : builtDirectionFastB exB_D2.fns exB_D2.edges exG_D2.graph exG_D2.ranks [0, 1, 2, 3] [1, 0, 2, 3] = true ∧
    builtDirectionB exB_D2.fns exB_D2.edges exG_D2.graph exG_D2.ranks = true ∧
    builtDirectionFastB exB_D2.fns exB_D2.edges ⟨4, [⟨0, 2, .logic⟩, ⟨2, 3, .contains⟩, ⟨1, 0, .data⟩]⟩
      exG_D2.ranks [1, 0, 2, 3] [0, 1, 2, 3] = false ∧
    builtDirectionB exB_D2.fns exB_D2.edges ⟨4, [⟨0, 2, .logic⟩, ⟨2, 3, .contains⟩, ⟨1, 0, .data⟩]⟩ exG_D2.ranks = false ∧
    -- a wrong user order is refused as well
    builtDirectionFastB exB_D2.fns exB_D2.edges exG_D2.graph exG_D2.ranks [0, 1, 2, 3] [3, 2, 1, 0] = false := by
  decide
-- the 5-function graph with ranks `[0,1,1,2,0]`: `0 → 4` is forced by the index tie-break, `3 → 4` is against
-- the ranks (4 has rank 0 < 2) and refused; with ranks `[0,1,1,2,3]` it is accepted
example : builtDirectionFastB exDecls5_Y exUser5_Y exBuilt5_Y [0, 1, 1, 2, 3] (topo exBuilt5_Y) (topo ⟨5, exUser5_Y⟩) = true ∧
    builtDirectionFastB exDecls5_Y exUser5_Y exBuilt5_Y [0, 1, 1, 2, 0] (topo exBuilt5_Y) (topo ⟨5, exUser5_Y⟩) = false ∧
    builtDirectionB exDecls5_Y exUser5_Y exBuilt5_Y [0, 1, 1, 2, 0] = false := by decide

/-! ### 5. the model satisfies the fast predicates for every input -/

theorem build_builtSoundFastB {b : BState} (h : BReach b) {G : FnGraph} (hb : build b = some G) :
    builtSoundFastB b.fns b.edges G.graph (topo G.graph) = true := by
  have hgood : GoodG G.graph := (build_sound h hb).2.2.2.2.1
  rw [builtSoundFastB_iff hgood.wf (topo_topoOrderB hgood)]
  exact build_builtSoundB h hb

theorem build_userGraph_eq {b : BState} (h : BReach b) {G : FnGraph} (hb : build b = some G) :
    (⟨G.graph.n, b.edges⟩ : Dag) = b.graph := by
  rw [(build_sound h hb).2.1]; rfl

theorem build_builtDirectionFastB {b : BState} (h : BReach b) {G : FnGraph} (hb : build b = some G) :
    builtDirectionFastB b.fns b.edges G.graph G.ranks (topo G.graph) (topo ⟨G.graph.n, b.edges⟩) = true := by
  have hgood : GoodG G.graph := (build_sound h hb).2.2.2.2.1
  have hU : GoodG ⟨G.graph.n, b.edges⟩ := by rw [build_userGraph_eq h hb]; exact (breach_good h).1
  exact builtDirectionFastB_of_builtOrderB hgood.wf hU.wf (topo_topoOrderB hgood) (topo_topoOrderB hU)
    (build_builtOrderB h hb)

/-- the same with the user order taken on the builder's own graph -/
theorem build_builtDirectionFastB' {b : BState} (h : BReach b) {G : FnGraph} (hb : build b = some G) :
    builtDirectionFastB b.fns b.edges G.graph G.ranks (topo G.graph) (topo b.graph) = true := by
  rw [← build_userGraph_eq h hb]; exact build_builtDirectionFastB h hb

-- non-vacuity: the 4-function example build
example : builtSoundFastB exB_D2.fns exB_D2.edges exG_D2.graph (topo exG_D2.graph) = true :=
  build_builtSoundFastB exB_reach_D2 exG_build_D2
example : builtDirectionFastB exB_D2.fns exB_D2.edges exG_D2.graph exG_D2.ranks (topo exG_D2.graph)
    (topo ⟨exG_D2.graph.n, exB_D2.edges⟩) = true :=
  build_builtDirectionFastB exB_reach_D2 exG_build_D2
example : topo exG_D2.graph = [1, 0, 2, 3] ∨ topo exG_D2.graph = [0, 1, 2, 3] ∨ topo exG_D2.graph = [0, 2, 3, 1] ∨
    topo exG_D2.graph = [0, 2, 1, 3] := by decide

end FG
