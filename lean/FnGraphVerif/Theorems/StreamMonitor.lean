/-
  Theorems/StreamMonitor.lean — the STREAM side of the two statements that tie the correspondence
  driver's monitors (`Model/Monitor.lean`) to the model:

  1. `strack_sound`: a (well-formed) stream trace accepted by the model-tracking monitor
     `trackStream` in a non-coop session IS a run of the stream model: the actions the events denote
     are enabled one after the other and lead to the monitor's final model state.
  2. `spreds_hold`: every run of the stream model (any interleaving of polls, `FnRef` drops,
     interrupt signals and an early drop of the stream) satisfies every predicate `predStream`
     evaluates (stream forms of C01 / C02 / C03 / C05 / C06 / C08).

  FINDING (statement 2 as originally given is FALSE): the model polls EVERY stream through the
  `InterruptibleStream` wrapper with strategy `c.strat`, while `predStream` treats a context with
  `interruptible = false` as a plain stream.  For `interruptible = false`, an interrupting strategy
  (`finish` / `pollN k`) and a signal, the model answers `Interrupted(None)` and then `None` before
  everything was yielded, and the plain-stream predicate `C05 none-iff-all` is false
  (`spreds_hold_original_false`).  The exhaustive search of `Proofs/RSearch.lean` (all acyclic
  graphs with ≤ 3 nodes, six strategies, both values of `interruptible`, all enabled action lists of
  length ≤ 9 with ≤ 2 signals) finds this and ONLY this failing predicate.  Minimal extra
  hypothesis: a context that is not `interruptible` runs a transparent strategy (`non` / `ignore`)
  or sees no signal.  With it the statement holds (`spreds_hold`).
-/
import FnGraphVerif.Proofs.RTrack
import FnGraphVerif.Proofs.RStep
namespace FG

/-! ## 1. an accepted trace is a model run -/

/-- **Monitor soundness, streams** (general start state): in a non-coop session, if the trace is
    well-formed relative to the monitor's start state (every dropped `f` is live — it was live at the
    start or yielded by a poll of the trace — and was not dropped since; no poll after the stream was
    dropped; `aborted` at most once) and every note of `trackStream` is an agreement, then the actions
    the events denote (`Ev.saction?`) are enabled in sequence from the start state and lead to the
    monitor's final model state. -/
theorem strack_sound {x : MonCtx} {t : STrackSt} {evs : List Ev} (hcoop : x.coop = false)
    (hwf : wfStreamFrom t.ss.live t.ss.streamDropped evs = true)
    (hok : ∀ n ∈ (strackRun x t evs).2, n.ok = true) :
    ∃ as : List SAction, srun x.c true t.ss as = some (strackRun x t evs).1.ss ∧
      as = evs.filterMap Ev.saction? :=
  ⟨_, strack_sound_from hcoop hwf hok, rfl⟩

/-- the same from the initial state, with the decidable predicate `wfStreamTrace evs` on the trace
    alone; the monitor's final model state is a reachable state of the stream model -/
theorem strack_sound_init {x : MonCtx} {evs : List Ev} (hcoop : x.coop = false)
    (hwf : wfStreamTrace evs = true)
    (hok : ∀ n ∈ (strackRun x { ss := sinit x.c } evs).2, n.ok = true) :
    ∃ as : List SAction, srun x.c true (sinit x.c) as = some (strackRun x { ss := sinit x.c } evs).1.ss ∧
      as = evs.filterMap Ev.saction? ∧
      SReachable x.c true (strackRun x { ss := sinit x.c } evs).1.ss := by
  have h := strack_sound_from (x := x) (t := { ss := sinit x.c }) hcoop hwf hok
  exact ⟨_, h, rfl, sreachable_srun SReachable.init h⟩

/-- the form with `wfStreamTrace evs`: enough whenever the monitor starts with no live `FnRef` and an
    undropped stream (for another start state `wfStreamTrace` says nothing about the refs that are
    already live / about a stream that is already dropped: use `strack_sound`) -/
theorem strack_sound_of_wfTrace {x : MonCtx} {t : STrackSt} {evs : List Ev} (hcoop : x.coop = false)
    (hl : t.ss.live = []) (hd : t.ss.streamDropped = false) (hwf : wfStreamTrace evs = true)
    (hok : ∀ n ∈ (strackRun x t evs).2, n.ok = true) :
    ∃ as : List SAction, srun x.c true t.ss as = some (strackRun x t evs).1.ss ∧
      as = evs.filterMap Ev.saction? :=
  strack_sound hcoop (by rw [hl, hd]; exact hwf) hok

/-- non-vacuity: a trace of 11 events on the diamond (polls answering `Some` / `Pending`, drops with
    and without wake-up, a signal, an early drop of the stream, a drop after it) is well-formed and
    accepted; the theorem makes it a model run that yields `0, 2, 1, 3`. -/
def exCtx_R_R_R : MonCtx :=
  { c := exDiamond_I, decls := [⟨[], [7], 0⟩, ⟨[], [], 1⟩, ⟨[], [], 2⟩, ⟨[7], [], 3⟩], userD := exDiamond_I.D,
    rev := false, control := false, interruptible := false, coop := false }

def exEvs_R_R_R : List Ev :=
  [.poll (.some 0), .poll (.pending false), .drop 0 true, .poll (.some 2), .poll (.some 1), .drop 2 true,
   .intr, .drop 1 false, .poll (.some 3), .aborted, .drop 3 false]

example : ∃ as : List SAction,
    srun exCtx_R_R_R.c true (sinit exCtx_R_R_R.c) as = some (strackRun exCtx_R_R_R { ss := sinit exCtx_R_R_R.c } exEvs_R_R_R).1.ss ∧
    as = [.poll, .poll, .drop 0, .poll, .poll, .drop 2, .interrupt, .drop 1, .poll, .dropStream, .drop 3] ∧
    SReachable exCtx_R_R_R.c true (strackRun exCtx_R_R_R { ss := sinit exCtx_R_R_R.c } exEvs_R_R_R).1.ss ∧
    (strackRun exCtx_R_R_R { ss := sinit exCtx_R_R_R.c } exEvs_R_R_R).1.ss.yielded = [0, 2, 1, 3] := by
  have hok : ∀ n ∈ (strackRun exCtx_R_R_R { ss := sinit exCtx_R_R_R.c } exEvs_R_R_R).2, n.ok = true := by
    have : ((strackRun exCtx_R_R_R { ss := sinit exCtx_R_R_R.c } exEvs_R_R_R).2.all Note.ok) = true := by decide
    exact List.all_eq_true.mp this
  obtain ⟨as, h1, h2, h3⟩ := strack_sound_init (x := exCtx_R_R_R) (evs := exEvs_R_R_R) rfl (by decide) hok
  exact ⟨as, h1, h2, h3, by decide⟩

/-- the well-formedness hypothesis is needed: the notes only compare the wake flag of a drop, so the
    drop of a function that was never yielded is accepted, but it is not an enabled model action -/
example : (∀ n ∈ (strackRun exCtx_R_R_R { ss := sinit exCtx_R_R_R.c } [.drop 2 false]).2, n.ok = true) ∧
    wfStreamTrace [.drop 2 false] = false ∧
    srun exCtx_R_R_R.c true (sinit exCtx_R_R_R.c) ([Ev.drop 2 false].filterMap Ev.saction?) = none := by
  refine ⟨List.all_eq_true.mp (by decide), by decide, by decide⟩

/-! ## 2. every model run satisfies the stream predicates -/

/-- the events a list of model actions shows (up to the first action that is not enabled) -/
def sObsEvents (c : Cfg) : SState → List SAction → List Ev
  | _, [] => []
  | s, a :: as =>
    match sstep? c true s a with
    | none => []
    | some s1 => sStepEvents c s a ++ sObsEvents c s1 as

theorem sobsRun_of_srun (x : MonCtx) : ∀ (as : List SAction) (s s' : SState),
    srun x.c true s as = some s' → SObsRun x s (sObsEvents x.c s as) s' := by
  intro as
  induction as with
  | nil =>
    intro s s' h
    simp only [srun, Option.some.injEq] at h
    subst h
    exact SObsRun.nil s
  | cons a as ih =>
    intro s s' h
    simp only [srun] at h
    unfold sObsEvents
    cases hs : sstep? x.c true s a with
    | none => rw [hs] at h; cases h
    | some s1 =>
      rw [hs] at h
      exact SObsRun.step a hs (ih s1 s' h)

theorem spredRun_cons (x : MonCtx) (m : SPredSt) (e : Ev) (es : List Ev) :
    spredRun x m (e :: es) =
      ((spredRun x (predStream x false m e).1 es).1,
       (predStream x false m e).2 ++ (spredRun x (predStream x false m e).1 es).2) := rfl

theorem predStream_poll_yai (x : MonCtx) (m : SPredSt) (r : PollObs) :
    (predStream x false m (.poll r)).1.yieldedAtIntr = m.yieldedAtIntr := by
  cases r <;> rfl

/-- the general form: from any coupled pair of a model state and a monitor state -/
theorem spreds_run {x : MonCtx} (hx : GoodCtx x) {s s' : SState} {evs : List Ev} (h : SObsRun x s evs s') :
    ∀ m : SPredSt, SCpl x s m →
      (x.interruptible = false →
        (x.c.strat = .non ∨ x.c.strat = .ignore) ∨ (m.yieldedAtIntr = none ∧ Ev.intr ∉ evs)) →
      ∀ n ∈ (spredRun x m evs).2, n.ok = true := by
  induction h with
  | nil s => intro m _ _ n hn; cases hn
  | @step s s1 s' evs a hstep rest ih =>
    intro m hc hpl n hn
    cases a with
    | poll =>
      have hsd : s.streamDropped = false := by
        simp only [sstep?] at hstep
        split at hstep
        · cases hstep
        · rename_i h0; simpa using h0
      have hs1 : s1 = (sipoll x.c true s).1 := by
        simp only [sstep?, hsd, Bool.false_eq_true, if_false, Option.some.injEq] at hstep
        exact hstep.symm
      subst hs1
      have hev : sStepEvents x.c s .poll ++ evs =
          .poll (pollObsOf (sipoll x.c true s).2.1 (sipoll x.c true s).2.2 (sipoll x.c true s).1.wake) :: evs := rfl
      rw [hev] at hn hpl
      rw [spredRun_cons] at hn
      obtain ⟨hc1, hnotes⟩ := scpl_poll hx hc hsd (fun hi => (hpl hi).imp id (fun h => h.1))
      rcases List.mem_append.mp hn with hn | hn
      · exact hnotes n hn
      · refine ih _ hc1 ?_ n hn
        intro hi
        refine (hpl hi).imp id (fun h => ⟨?_, fun hm => h.2 (List.mem_cons_of_mem _ hm)⟩)
        rw [predStream_poll_yai]; exact h.1
    | drop f =>
      have hd : sdrop x.c s f = some s1 := hstep
      have hev : sStepEvents x.c s (.drop f) ++ evs =
          .drop f (s.doneRxWaker && !s.streamDropped && decide (s.doneQ.length < x.c.cap)) :: evs := rfl
      rw [hev] at hn hpl
      rw [spredRun_cons] at hn
      obtain ⟨hc1, hnotes⟩ := scpl_drop hx hc hd
      rcases List.mem_append.mp hn with hn | hn
      · exact hnotes n hn
      · refine ih _ hc1 ?_ n hn
        intro hi
        exact (hpl hi).imp id (fun h => ⟨h.1, fun hm => h.2 (List.mem_cons_of_mem _ hm)⟩)
    | dropStream =>
      have hsd : s.streamDropped = false := by
        simp only [sstep?] at hstep
        split at hstep
        · cases hstep
        · rename_i h0; simpa using h0
      have hs1 : s1 = sdropStream s := by
        simp only [sstep?, hsd, Bool.false_eq_true, if_false, Option.some.injEq] at hstep
        exact hstep.symm
      subst hs1
      have hev : sStepEvents x.c s .dropStream ++ evs = .aborted :: evs := rfl
      rw [hev] at hn hpl
      rw [spredRun_cons] at hn
      obtain ⟨hc1, hnotes⟩ := scpl_aborted hc hsd
      rcases List.mem_append.mp hn with hn | hn
      · rw [hnotes] at hn; cases hn
      · refine ih _ hc1 ?_ n hn
        intro hi
        exact (hpl hi).imp id (fun h => ⟨h.1, fun hm => h.2 (List.mem_cons_of_mem _ hm)⟩)
    | interrupt =>
      have hs1 : s1 = { s with im := { s.im with sent := true } } := by
        simp only [sstep?, Option.some.injEq] at hstep
        exact hstep.symm
      subst hs1
      have hev : sStepEvents x.c s .interrupt ++ evs = .intr :: evs := rfl
      rw [hev] at hn hpl
      rw [spredRun_cons] at hn
      obtain ⟨hc1, hnotes⟩ := scpl_intr hc
      rcases List.mem_append.mp hn with hn | hn
      · rw [hnotes] at hn; cases hn
      · refine ih _ hc1 ?_ n hn
        intro hi
        rcases hpl hi with h | h
        · exact Or.inl h
        · exact absurd (List.mem_cons_self ..) h.2

/-- **The stream predicates hold of every model run** — with the side condition found by the search:
    a context that is not `interruptible` (a plain `stream` / `stream_with`) runs a transparent
    strategy or sees no interrupt signal.  (ORIGINAL STATEMENT, false without `hplain`, see
    `spreds_hold_original_false`:
    `spreds_hold {x} (hx : GoodCtx x) {evs s} (h : SObsRun x (sinit x.c) evs s) :
       ∀ n ∈ (spredRun x {} evs).2, n.ok = true`.) -/
theorem spreds_hold {x : MonCtx} (hx : GoodCtx x) {evs : List Ev} {s : SState}
    (hplain : x.interruptible = false → x.c.strat = .non ∨ x.c.strat = .ignore ∨ Ev.intr ∉ evs)
    (h : SObsRun x (sinit x.c) evs s) : ∀ n ∈ (spredRun x {} evs).2, n.ok = true := by
  refine spreds_run hx h {} (scpl_init x) ?_
  intro hi
  rcases hplain hi with h1 | h1 | h1
  · exact Or.inl (Or.inl h1)
  · exact Or.inl (Or.inr h1)
  · exact Or.inr ⟨rfl, h1⟩

/-- for `interruptible` contexts there is no side condition at all -/
theorem spreds_hold_interruptible {x : MonCtx} (hx : GoodCtx x) (hi : x.interruptible = true)
    {evs : List Ev} {s : SState} (h : SObsRun x (sinit x.c) evs s) :
    ∀ n ∈ (spredRun x {} evs).2, n.ok = true :=
  spreds_hold hx (fun h0 => by rw [hi] at h0; cases h0) h

/-! ### the counterexample to the original statement -/

/-- one function, `FinishCurrent`, but the context says "plain stream" -/
def exBad_R_R_R : MonCtx :=
  { c := { D := ⟨1, []⟩, counts0 := [0], strat := .finish }, decls := [], userD := ⟨1, []⟩, rev := false,
    control := false, interruptible := false, coop := false }

theorem goodCtx_of_noDecls {x : MonCtx} (hg : GoodCfg x.c) (herr : x.c.errMode = .none)
    (hU : x.userD = x.c.D) (hrev : x.rev = false) (hd : x.decls = []) : GoodCtx x :=
  { good := hg
    api := fun h => by rw [herr] at h; cases h
    userN := by rw [hU]; rfl
    userSub := fun u v h => by rw [hrev, hU] at h; exact h
    userWF := by rw [hU]; exact hg.wf
    ordered := fun u v _ _ _ hc => by
      rw [hd] at hc
      have : conflict (declOf [] u) (declOf [] v) = false := by
        simp [declOf, conflict]
      rw [this] at hc; cases hc }

theorem exBad_good_R_R_R : GoodCtx exBad_R_R_R :=
  goodCtx_of_noDecls (goodCfg_of_check (by decide)) rfl rfl rfl rfl

/-- **the original statement is false**: signal, poll (`Interrupted(None)`), poll (`None`) on the
    one-function graph: `None` although nothing was yielded — `C05 none-iff-all` fails, because the
    context is not `interruptible` while the model applies `FinishCurrent`. -/
theorem spreds_hold_original_false :
    ¬ (∀ (x : MonCtx), GoodCtx x → ∀ (evs : List Ev) (s : SState), SObsRun x (sinit x.c) evs s →
        ∀ n ∈ (spredRun x {} evs).2, n.ok = true) := by
  intro H
  have hsome : (srun exBad_R_R_R.c true (sinit exBad_R_R_R.c) [.interrupt, .poll, .poll]).isSome = true := by decide
  obtain ⟨s', hs'⟩ := Option.isSome_iff_exists.mp hsome
  have hrun := sobsRun_of_srun exBad_R_R_R _ _ _ hs'
  have hall := List.all_eq_true.mpr (H exBad_R_R_R exBad_good_R_R_R _ _ hrun)
  have hfalse : ((spredRun exBad_R_R_R {}
      (sObsEvents exBad_R_R_R.c (sinit exBad_R_R_R.c) [.interrupt, .poll, .poll])).2.all Note.ok) = false := by decide
  rw [hfalse] at hall
  cases hall

/-- what the harness would see of that run, and the failing note -/
example : sObsEvents exBad_R_R_R.c (sinit exBad_R_R_R.c) [.interrupt, .poll, .poll] =
    [.intr, .poll .inone, .poll .none] := by decide
example : (spredRun exBad_R_R_R {} [.intr, .poll .inone, .poll .none]).2.map Note.ok = [false] := by decide

/-- the same run in an `interruptible` context satisfies every predicate (by the theorem) -/
example : ∀ n ∈ (spredRun { exBad_R_R_R with interruptible := true } {}
    (sObsEvents exBad_R_R_R.c (sinit exBad_R_R_R.c) [.interrupt, .poll, .poll])).2, n.ok = true := by
  have hsome : (srun exBad_R_R_R.c true (sinit exBad_R_R_R.c) [.interrupt, .poll, .poll]).isSome = true := by decide
  obtain ⟨s', hs'⟩ := Option.isSome_iff_exists.mp hsome
  exact spreds_hold_interruptible (x := { exBad_R_R_R with interruptible := true })
    (goodCtx_of_noDecls (goodCfg_of_check (by decide)) rfl rfl rfl rfl) rfl
    (sobsRun_of_srun { exBad_R_R_R with interruptible := true } _ _ _ hs')

/-! ### non-vacuity of `spreds_hold` -/

theorem exCtx_good_R_R_R : GoodCtx exCtx_R_R_R :=
  { good := exDiamond_good_I
    api := fun h => by cases h
    userN := rfl
    userSub := fun u v h => h
    userWF := exDiamond_good_I.wf
    ordered := by
      intro u v hu hv hne hc
      have h03 : ReachP exCtx_R_R_R.c.D 0 3 :=
        ReachP.tail (ReachP.edge ⟨⟨0, 1, .logic⟩, by decide, rfl, rfl⟩) ⟨⟨1, 3, .logic⟩, by decide, rfl, rfl⟩
      have hu' : u = 0 ∨ u = 1 ∨ u = 2 ∨ u = 3 := by
        have : u < 4 := hu
        omega
      have hv' : v = 0 ∨ v = 1 ∨ v = 2 ∨ v = 3 := by
        have : v < 4 := hv
        omega
      rcases hu' with rfl | rfl | rfl | rfl <;> rcases hv' with rfl | rfl | rfl | rfl <;>
        first
          | exact absurd rfl hne
          | exact Or.inl h03
          | exact Or.inr h03
          | (exfalso; revert hc; decide) }

def exActs_R_R_R : List SAction :=
  [.poll, .poll, .drop 0, .poll, .poll, .drop 2, .interrupt, .drop 1, .poll, .dropStream, .drop 3]

/-- a plain stream on the diamond with a real conflict (0 writes / 3 reads resource 7): the run shows
    the 11 events of `exEvs_R_R_R`, 26 predicate instances are evaluated on them, all hold -/
example : sObsEvents exCtx_R_R_R.c (sinit exCtx_R_R_R.c) exActs_R_R_R = exEvs_R_R_R ∧
    (spredRun exCtx_R_R_R {} exEvs_R_R_R).2.length = 26 ∧
    ∀ n ∈ (spredRun exCtx_R_R_R {} exEvs_R_R_R).2, n.ok = true := by
  have hev : sObsEvents exCtx_R_R_R.c (sinit exCtx_R_R_R.c) exActs_R_R_R = exEvs_R_R_R := by decide
  have hsome : (srun exCtx_R_R_R.c true (sinit exCtx_R_R_R.c) exActs_R_R_R).isSome = true := by decide
  obtain ⟨s', hs'⟩ := Option.isSome_iff_exists.mp hsome
  have hrun := sobsRun_of_srun exCtx_R_R_R _ _ _ hs'
  rw [hev] at hrun
  exact ⟨hev, by decide, spreds_hold exCtx_good_R_R_R (fun _ => Or.inl rfl) hrun⟩

/-- an interruptible stream (`FinishCurrent`) on the diamond: park, signal, drop, the item that was
    being waited for comes as `Interrupted(Some 2)` (the C08 bound `1` is attained), then `None` -/
def exCtxI_R_R_R : MonCtx :=
  { exCtx_R_R_R with c := { exDiamond_I with strat := .finish }, interruptible := true }

theorem exCtxI_good_R_R_R : GoodCtx exCtxI_R_R_R :=
  { exCtx_good_R_R_R with good := goodCfg_of_check (by decide) }

example : sObsEvents exCtxI_R_R_R.c (sinit exCtxI_R_R_R.c) [.poll, .poll, .interrupt, .drop 0, .poll, .poll, .drop 2] =
      [.poll (.some 0), .poll (.pending false), .intr, .drop 0 true, .poll (.isome 2), .poll .none,
       .drop 2 true] ∧
    ∀ n ∈ (spredRun exCtxI_R_R_R {} (sObsEvents exCtxI_R_R_R.c (sinit exCtxI_R_R_R.c)
        [.poll, .poll, .interrupt, .drop 0, .poll, .poll, .drop 2])).2, n.ok = true := by
  have hsome : (srun exCtxI_R_R_R.c true (sinit exCtxI_R_R_R.c)
      [.poll, .poll, .interrupt, .drop 0, .poll, .poll, .drop 2]).isSome = true := by decide
  obtain ⟨s', hs'⟩ := Option.isSome_iff_exists.mp hsome
  exact ⟨by decide, spreds_hold_interruptible exCtxI_good_R_R_R rfl (sobsRun_of_srun exCtxI_R_R_R _ _ _ hs')⟩

end FG
