/-
  Theorems/SpecLink.lean — the MODEL satisfies the decidable specification predicates of
  `Model/Spec.lean` (the ones the correspondence driver evaluates on real data), and daggy's
  `must_check_for_cycle` shortcut, modelled literally, never changes the outcome of
  `add_edge` / `update_edge`.
-/
import FnGraphVerif.Theorems.C12
namespace FG

/-! ### 1. `reachPlus` decides strict reachability -/

/-- (`hu` is not needed by the proof: a node without children has no strict path either) -/
theorem reachPlus_iff {g : Dag} (hg : GoodG g) {u v : Nat} (hu : u < g.n) :
    reachPlus g u v = true ↔ ReachP g u v := by
  have _ := hu
  unfold reachPlus
  rw [List.any_eq_true]
  constructor
  · rintro ⟨c, hc, hp⟩
    have he := mem_children.mp hc
    exact ReachP.head he ((hasPath_iff_reach hg.wf (he.lt hg.wf).2 v).mp hp)
  · intro h
    obtain ⟨b, hab, hbv⟩ := h.first
    exact ⟨b, mem_children.mpr hab, (hasPath_iff_reach hg.wf (hab.lt hg.wf).2 v).mpr hbv⟩

-- non-vacuity on the diamond-with-chord `exG_C` (4 nodes): strict, hence irreflexive
example : reachPlus exG_C 0 3 = true ∧ reachPlus exG_C 3 0 = false ∧ reachPlus exG_C 2 2 = false ∧
    hasPath exG_C 2 2 = true := by decide
example : ReachP exG_C 0 3 := (reachPlus_iff exG_good_C (by decide)).mp (by decide)
example : ¬ ReachP exG_C 2 2 := fun h => absurd ((reachPlus_iff exG_good_C (by decide)).mpr h) (by decide)

/-! ### 2. `isAcyclicB` decides acyclicity -/

theorem isAcyclicB_iff {g : Dag} (hwf : WF g) : isAcyclicB g = true ↔ Acyclic g := by
  unfold isAcyclicB
  rw [List.all_eq_true]
  constructor
  · intro h u hu
    obtain ⟨b, ⟨e, he, hs, ht⟩, hbu⟩ := hu.first
    have h1 := h e he
    rw [Bool.not_eq_true', hasPath_false_iff hwf (hwf e he).2] at h1
    apply h1
    rw [hs, ht]
    exact hbu
  · intro h e he
    rw [Bool.not_eq_true', hasPath_false_iff hwf (hwf e he).2]
    intro hr
    exact h e.src (ReachP.head ⟨e, he, rfl, rfl⟩ hr)

-- non-vacuity: a good 4-node graph, and a well-formed 3-cycle
example : isAcyclicB exG_C = true := (isAcyclicB_iff exG_good_C.wf).mpr exG_good_C.acyclic
def exCyc_K : Dag := ⟨3, [⟨0, 1, .logic⟩, ⟨1, 2, .logic⟩, ⟨2, 0, .logic⟩]⟩
theorem exCyc_wf_K : WF exCyc_K := by
  intro e he
  simp only [exCyc_K, List.mem_cons, List.not_mem_nil, or_false] at he
  rcases he with rfl | rfl | rfl <;> decide
example : isAcyclicB exG_C = true ∧ isAcyclicB exCyc_K = false := by decide
example : ¬ Acyclic exCyc_K := fun h => absurd ((isAcyclicB_iff exCyc_wf_K).mpr h) (by decide)

/-! ### 3. `simpleB` decides "at most one edge per ordered pair" -/

theorem simpleB_iff {g : Dag} :
    simpleB g = true ↔
      ∀ (i j : Nat) (e1 e2 : Edge), g.edges[i]? = some e1 → g.edges[j]? = some e2 → e1.src = e2.src → e1.tgt = e2.tgt → i = j := by
  unfold simpleB
  simp only [List.all_eq_true, List.mem_range]
  constructor
  · intro h i j e1 e2 h1 h2 hs ht
    have hi : i < g.edges.length := (List.getElem?_eq_some_iff.mp h1).1
    have hj : j < g.edges.length := (List.getElem?_eq_some_iff.mp h2).1
    have h3 := h i hi j hj
    rw [h1, h2] at h3
    by_cases hij : i = j
    · exact hij
    · simp [hij, hs, ht] at h3
  · intro h i hi j hj
    by_cases hij : i = j
    · simp [hij]
    · have h3 := h i j g.edges[i] g.edges[j] (List.getElem?_eq_getElem hi) (List.getElem?_eq_getElem hj)
      rw [List.getElem?_eq_getElem hi, List.getElem?_eq_getElem hj]
      simp only [Option.map_some, Bool.or_eq_true, beq_iff_eq, hij, false_or, Bool.not_eq_true',
        Bool.and_eq_false_iff, beq_eq_false_iff_ne, ne_eq, Option.some.injEq]
      by_cases hs : g.edges[i].src = g.edges[j].src
      · right; intro ht; exact hij (h3 hs ht)
      · left; exact hs

/-- the same through `Simple` (duplicate-free neighbour lists), the form `GoodG` carries -/
theorem simpleB_iff_simple {g : Dag} : simpleB g = true ↔ Simple g :=
  simpleB_iff.trans (simple_iff_pairsUniq g).symm

theorem goodG_simpleB {g : Dag} (hg : GoodG g) : simpleB g = true := simpleB_iff_simple.mpr hg.simple

theorem breach_simpleB {b : BState} (h : BReach b) : simpleB b.graph = true :=
  simpleB_iff.mpr (fun _ _ _ _ h1 h2 hs ht => breach_pairs_unique h h1 h2 hs ht)

-- non-vacuity: reachable 4-function builder; a repeated pair (with different kinds) is refused
example : simpleB exB_D2.graph = true := breach_simpleB exB_reach_D2
example : simpleB exG_C = true ∧ simpleB ⟨3, [⟨0, 1, .logic⟩, ⟨1, 2, .logic⟩, ⟨0, 1, .contains⟩]⟩ = false := by decide
example : ¬ Simple ⟨3, [⟨0, 1, .logic⟩, ⟨1, 2, .logic⟩, ⟨0, 1, .contains⟩]⟩ := fun h =>
  absurd (simpleB_iff_simple.mpr h) (by decide)

/-! ### 4. the built graph satisfies `builtSoundB` -/

theorem hasPath_of_reachP {g : Dag} (hwf : WF g) {u v : Nat} (h : ReachP g u v) : hasPath g u v = true :=
  (hasPath_iff_reach hwf (h.src_lt hwf) v).mpr (Reach.of_reachP h)

theorem build_builtSoundB {b : BState} (h : BReach b) {G : FnGraph} (hb : build b = some G) :
    builtSoundB b.fns b.edges G.graph = true := by
  obtain ⟨_, hn, ⟨Dd, hDd, hD⟩, hu, hgood, hconf⟩ := build_sound h hb
  unfold builtSoundB
  simp only [Bool.and_eq_true]
  refine ⟨⟨⟨⟨⟨?_, ?_⟩, ?_⟩, ?_⟩, ?_⟩, ?_⟩
  · exact beq_iff_eq.mpr hn
  · rw [hDd, List.take_left]; exact beq_self_eq_true _
  · rw [hDd, List.drop_left, List.all_eq_true]
    intro e he
    rw [Bool.and_eq_true]
    exact ⟨beq_iff_eq.mpr (hD e he).1, (hD e he).2⟩
  · rw [List.all_eq_true]
    intro e he
    exact bne_iff_ne.mpr (hu e he)
  · exact (isAcyclicB_iff hgood.wf).mpr hgood.acyclic
  · simp only [List.all_eq_true, List.mem_range]
    intro u hu' v hv'
    by_cases huv : u = v
    · simp [huv]
    · cases hc : conflict (declOf b.fns u) (declOf b.fns v) with
      | false => simp
      | true =>
        rcases hconf u v hu' hv' huv hc with hp | hp
        · simp [hasPath_of_reachP hgood.wf hp]
        · simp [hasPath_of_reachP hgood.wf hp]

-- non-vacuity: the 4-function example build; dropping its data edge, or relabelling it, is refused
example : builtSoundB exB_D2.fns exB_D2.edges exG_D2.graph = true := build_builtSoundB exB_reach_D2 exG_build_D2
example : builtSoundB exB_D2.fns exB_D2.edges exG_D2.graph = true ∧
    builtSoundB exB_D2.fns exB_D2.edges ⟨4, [⟨0, 2, .logic⟩, ⟨2, 3, .contains⟩]⟩ = false ∧
    builtSoundB exB_D2.fns exB_D2.edges ⟨4, [⟨0, 2, .logic⟩, ⟨2, 3, .contains⟩, ⟨0, 1, .logic⟩]⟩ = false := by
  decide

/-! ### 5. the built graph and its ranks satisfy `builtOrderB` -/

theorem build_builtOrderB {b : BState} (h : BReach b) {G : FnGraph} (hb : build b = some G) :
    builtOrderB b.fns b.edges G.graph G.ranks = true := by
  obtain ⟨_, hn, _, _, hgood, hconf⟩ := build_sound h hb
  unfold builtOrderB
  simp only [Bool.and_eq_true]
  refine ⟨?_, ?_⟩
  · simp only [List.all_eq_true, List.mem_range]
    intro u hu' v hv'
    by_cases huv : u = v
    · simp [huv]
    · cases hc : conflict (declOf b.fns u) (declOf b.fns v) with
      | false => simp
      | true =>
        have hfw := @built_path_forward b h G hb
        have hjoin := hconf u v hu' hv' huv hc
        have key : (if (decide (G.ranks[u]?.getD 0 < G.ranks[v]?.getD 0)
              || (G.ranks[u]?.getD 0 == G.ranks[v]?.getD 0 && decide (u < v))) = true
            then hasPath G.graph u v else hasPath G.graph v u) = true := by
          split
          · rename_i hf
            rcases hjoin with hp | hp
            · exact hasPath_of_reachP hgood.wf hp
            · exfalso
              have h1 := hfw hp
              simp only [Bool.or_eq_true, decide_eq_true_eq, Bool.and_eq_true, beq_iff_eq] at hf
              omega
          · rename_i hf
            rcases hjoin with hp | hp
            · exfalso
              have h1 := hfw hp
              simp only [Bool.or_eq_true, decide_eq_true_eq, Bool.and_eq_true, beq_iff_eq] at hf
              omega
            · exact hasPath_of_reachP hgood.wf hp
        exact Bool.or_eq_true_iff.mpr (Or.inr key)
  · simp only [List.all_eq_true, List.mem_range]
    intro i _
    cases he : G.graph.edges[i]? with
    | none => rfl
    | some e =>
      simp only [Bool.or_eq_true, bne_iff_ne, ne_eq, Bool.not_eq_true']
      by_cases hk : e.kind = .data
      · right
        cases hp : hasPath ⟨G.graph.n, G.graph.edges.eraseIdx i⟩ e.src e.tgt with
        | false => rfl
        | true => exact absurd (hasPath_sound hp) (data_edge_not_redundant h hb he hk)
      · left; exact hk

-- non-vacuity: the 4-function example build (data edge `0 → 1`, ranks `[0,0,1,2]`); the opposite
-- direction `1 → 0`, and a redundant data edge `0 → 3`, are refused
example : builtOrderB exB_D2.fns exB_D2.edges exG_D2.graph exG_D2.ranks = true :=
  build_builtOrderB exB_reach_D2 exG_build_D2
example : builtOrderB exB_D2.fns exB_D2.edges exG_D2.graph exG_D2.ranks = true ∧
    builtOrderB exB_D2.fns exB_D2.edges ⟨4, [⟨0, 2, .logic⟩, ⟨2, 3, .contains⟩, ⟨1, 0, .data⟩]⟩ exG_D2.ranks = false ∧
    builtOrderB exB_D2.fns exB_D2.edges ⟨4, [⟨0, 2, .logic⟩, ⟨2, 3, .contains⟩, ⟨0, 1, .data⟩, ⟨0, 3, .data⟩]⟩
      exG_D2.ranks = false := by
  decide

/-! ### 6. the built ranks are the synchronous longest-chain specification -/

theorem build_ranks_longestChains {b : BState} (h : BReach b) {G : FnGraph} (hb : build b = some G) :
    G.ranks = longestChains b.graph := by
  obtain ⟨_, _, _, _, _, _, st, hst, hr, _⟩ := build_structs h hb
  rw [hr, longestChains_eq_ranks (breach_good h).1 hst]

example : exG_D2.ranks = longestChains exB_D2.graph := build_ranks_longestChains exB_reach_D2 exG_build_D2
example : longestChains exB_D2.graph = [0, 0, 1, 2] := by decide

/-! ### 7. daggy's `must_check_for_cycle`, literally -/

/-- `must_check_for_cycle(dag, a, c)`: a self-edge always; otherwise only when `a` has a parent,
    `c` has a child and there is no edge `a → c` yet -/
def mustCheck (g : Dag) (a c : Nat) : Bool :=
  a == c || (!(parents g a).isEmpty && !(children g c).isEmpty && (findEdge g a c).isNone)

/-- daggy `Dag::add_edge` with the shortcut in place -/
def addEdgeLit (g : Dag) (a c : Nat) (k : Kind) : Option Dag :=
  if g.n ≤ a ∨ g.n ≤ c then none
  else if mustCheck g a c && hasPath g c a then none
  else some { g with edges := g.edges ++ [⟨a, c, k⟩] }

/-- daggy `Dag::update_edge` with the shortcut in place (`updateEdge` with the guarded test) -/
def updateEdgeLit (g : Dag) (a c : Nat) (k : Kind) : Dag × Res :=
  if g.n ≤ a ∨ g.n ≤ c then (g, .oob) else
  match findEdge g a c with
  | some i => ({ g with edges := g.edges.set i ⟨a, c, k⟩ }, .ok i)
  | none =>
    if mustCheck g a c && hasPath g c a then (g, .wouldCycle)
    else ({ g with edges := g.edges ++ [⟨a, c, k⟩] }, .ok g.edges.length)

theorem ReachP.last_edge {g : Dag} {a b : Nat} (h : ReachP g a b) : ∃ w, IsEdge g w b := by
  cases h with
  | edge he => exact ⟨_, he⟩
  | tail _ he => exact ⟨_, he⟩

/-- the shortcut is sound: whenever it skips the search, no path `c ⇝ a` exists -/
theorem mustCheck_false_no_path {g : Dag} (hg : GoodG g) {a c : Nat} (hc : c < g.n)
    (hm : mustCheck g a c = false) : hasPath g c a = false := by
  rw [hasPath_false_iff hg.wf hc]
  intro hr
  unfold mustCheck at hm
  simp only [Bool.or_eq_false_iff, beq_eq_false_iff_ne, ne_eq, Bool.and_eq_false_iff,
    Bool.not_eq_false', List.isEmpty_iff] at hm
  obtain ⟨hne, hm⟩ := hm
  rcases hr.cases_head with heq | hp
  · exact hne heq.symm
  · rcases hm with (hpar | hch) | hf
    · obtain ⟨w, hw⟩ := hp.last_edge
      have := mem_parents.mpr hw
      rw [hpar] at this
      cases this
    · obtain ⟨w, hw, _⟩ := hp.first
      have := mem_children.mpr hw
      rw [hch] at this
      cases this
    · cases hfe : findEdge g a c with
      | none => rw [hfe] at hf; cases hf
      | some i => exact hg.acyclic a (ReachP.head (findEdge_isEdge hfe) hr)

theorem mustCheck_and_hasPath {g : Dag} (hg : GoodG g) {a c : Nat} (hc : c < g.n) :
    (mustCheck g a c && hasPath g c a) = hasPath g c a := by
  cases hm : mustCheck g a c with
  | true => rfl
  | false => rw [mustCheck_false_no_path hg hc hm]; rfl

theorem addEdgeLit_eq {g : Dag} (hg : GoodG g) (a c : Nat) (k : Kind) :
    addEdgeLit g a c k = addEdgeChecked g a c k := by
  unfold addEdgeLit addEdgeChecked
  by_cases hb : g.n ≤ a ∨ g.n ≤ c
  · rw [if_pos hb, if_pos hb]
  · rw [if_neg hb, if_neg hb, mustCheck_and_hasPath hg (by omega)]

theorem updateEdgeLit_eq {g : Dag} (hg : GoodG g) (a c : Nat) (k : Kind) :
    updateEdgeLit g a c k = updateEdge g a c k := by
  unfold updateEdgeLit updateEdge
  by_cases hb : g.n ≤ a ∨ g.n ≤ c
  · rw [if_pos hb, if_pos hb]
  · rw [if_neg hb, if_neg hb, mustCheck_and_hasPath hg (by omega)]
    cases findEdge g a c <;> rfl

-- non-vacuity on the diamond-with-chord `exG_C` (edges 0→1, 0→2, 1→3, 2→3, 1→2):
-- the shortcut skips for (0,3) (0 has no parent) and for (1,2) (the edge exists); (2,1), (3,0), (3,1)
-- and the self-edge (1,1) are searched and refused
example : mustCheck exG_C 0 3 = false ∧ mustCheck exG_C 1 2 = false ∧ mustCheck exG_C 2 1 = true ∧
    mustCheck exG_C 3 0 = true ∧ mustCheck exG_C 3 1 = true ∧ mustCheck exG_C 1 1 = true := by decide
example : addEdgeLit exG_C 0 3 .data = some ⟨4, exG_C.edges ++ [⟨0, 3, .data⟩]⟩ ∧
    addEdgeLit exG_C 2 1 .data = none ∧ addEdgeLit exG_C 1 1 .data = none ∧ addEdgeLit exG_C 0 4 .data = none := by
  decide
example : addEdgeLit exG_C 2 1 .data = addEdgeChecked exG_C 2 1 .data := addEdgeLit_eq exG_good_C 2 1 .data
example : hasPath exG_C 3 0 = false := mustCheck_false_no_path exG_good_C (by decide) (by decide)
example : updateEdgeLit exG_C 2 1 .logic = (exG_C, .wouldCycle) ∧
    updateEdgeLit exG_C 0 3 .logic = (⟨4, exG_C.edges ++ [⟨0, 3, .logic⟩]⟩, .ok 5) ∧
    (updateEdgeLit exG_C 1 2 .logic).2 = .ok 4 := by decide
example : updateEdgeLit exG_C 0 3 .logic = updateEdge exG_C 0 3 .logic := updateEdgeLit_eq exG_good_C 0 3 .logic
-- without acyclicity the shortcut is NOT sound: on the 2-cycle `0 ⇄ 1` the existing edge `0 → 1`
-- makes `add_edge(0,1)` skip the search although `1 ⇝ 0`
example : addEdgeLit ⟨2, [⟨0, 1, .logic⟩, ⟨1, 0, .logic⟩]⟩ 0 1 .data ≠
    addEdgeChecked ⟨2, [⟨0, 1, .logic⟩, ⟨1, 0, .logic⟩]⟩ 0 1 .data := by decide

end FG
