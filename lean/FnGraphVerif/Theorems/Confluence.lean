/-
  Theorems/Confluence.lean — CONFLUENCE OF THE INTERNAL ACTIONS of the run protocol.

  The correspondence driver compares the implementation at every quiescent point with
  `settle c s`, i.e. with ONE order of the internal actions (invoke, queuerRecv, queuerEnd,
  schedPoll, schedEnd, ret).  A real executor may interleave queuer and scheduler differently.
  `internal_confluence`: whatever order is taken, the quiescent state reached agrees with
  `settle c s` on the observation `obs`.

  FINDINGS (exhaustive search over all graphs with ≤ 3 nodes, all limits / sequential / errMode /
  strategies `non, ignore, finish, pollN 0..3` / incl, all reachable states; then proved):
  `q = settle c s` is FALSE in general; exactly two fields can differ, kernel-checked below:
  * `invoked` — (a) its ORDER (two handed-out functions may be invoked in either order), and
    (b) under a non-sequential `shortCircuit` configuration (no real API, `Cfg.ApiOk` fails) even as a
    SET: after `ret` a handed-out function may or may not still be invoked; `settle` always does it.
    Invariant: the set `invoked ∪ inflight`.
  * `readyQ` — once the ready receiver is dropped (`readyRxOpen = false`; the stream ended after an
    interrupt): a `queuerRecv` before the last `schedPoll` still queues the released children, one after it
    does not.  Invariant: `readyQ` while `readyRxOpen`, nothing afterwards (nobody reads it then).
  Every other field — `counts`, `doneQ`, `released`, `handedOut`, `inflight`, `endedOk`, `failed`,
  `errors`, `dropped`, `closeAfter`, all flags, `qRemaining`, `sRemaining`, `shortErr`, `result`,
  `panic`, and ALL of `im` (`sent recv cnt sig hp ipc ian`) — is independent of the order.

  Proof: `invoke` is split off (no other internal action reads or writes `invoked`); for the
  remaining five "core" actions: `Sim` (= equality of `norm`) is a strong bisimulation
  (`Proofs/LCore.lean`), every state-changing core action decreases `mu` (`Proofs/LMeasure.lean`),
  core actions are locally confluent modulo `Sim` (`Proofs/LDiamond*.lean`; the two real diamonds are
  queuer-vs-`schedPoll`, where a `Pending` poll is absorbed by the next poll, `Proofs/LIM.lean`), and
  Newman's lemma modulo `Sim` (`Proofs/LNewman.lean`) gives uniqueness of normal forms.
-/
import FnGraphVerif.Proofs.LDiamond
namespace FG
variable {c : Cfg} {s s' t : PState}

/-! ### the observation -/

/-- one more than the largest member -/
def idBound : List Nat → Nat
  | [] => 0
  | a :: l => max (a + 1) (idBound l)

/-- canonical (sorted, duplicate-free) list of the members of `l` -/
def canon (l : List Nat) : List Nat := (List.range (idBound l)).filter (fun f => decide (f ∈ l))

theorem lt_idBound {l : List Nat} {f : Nat} (h : f ∈ l) : f < idBound l := by
  induction l with
  | nil => cases h
  | cons a l ih =>
    simp only [idBound]
    rcases List.mem_cons.mp h with rfl | h
    · omega
    · have := ih h; omega

theorem idBound_le {l : List Nat} {n : Nat} (h : ∀ f ∈ l, f < n) : idBound l ≤ n := by
  induction l with
  | nil => simp [idBound]
  | cons a l ih =>
    simp only [idBound]
    have h1 := h a (by simp)
    have h2 := ih (fun f hf => h f (List.mem_cons_of_mem _ hf))
    omega

theorem mem_canon {l : List Nat} {f : Nat} : f ∈ canon l ↔ f ∈ l := by
  simp only [canon, List.mem_filter, List.mem_range, decide_eq_true_eq]
  exact ⟨fun h => h.2, fun h => ⟨lt_idBound h, h⟩⟩

theorem canon_congr {l1 l2 : List Nat} (h : ∀ f, f ∈ l1 ↔ f ∈ l2) : canon l1 = canon l2 := by
  have hb : idBound l1 = idBound l2 :=
    Nat.le_antisymm (idBound_le (fun f hf => lt_idBound ((h f).mp hf)))
      (idBound_le (fun f hf => lt_idBound ((h f).mpr hf)))
  unfold canon
  rw [hb]
  apply List.filter_congr
  intro x _
  simp only [decide_eq_decide]
  exact h x

/-- The observation: the whole state, except that `invoked` is replaced by the sorted set of the
    functions invoked or still in flight, and the ready queue is blanked once its receiver is gone.
    (At a quiescent point where the call has not returned every in-flight function is invoked, so the
    first component is then just the sorted set of `invoked`.) -/
def obs (s : PState) : PState :=
  { s with invoked := canon (s.invoked ++ s.inflight),
           readyQ := if s.readyRxOpen then s.readyQ else [] }

theorem obs_eq_norm (s : PState) : obs s = { norm s with invoked := canon (s.invoked ++ s.inflight) } := rfl

/-! ### from internal runs to core runs -/

theorem internal_to_core (hc : GoodCfg c) {as : List Action} : ∀ {s q : PState}, Reachable c s →
    (∀ a ∈ as, a.internal) → run c s as = some q → ∃ cs q5, crun c s cs = some q5 ∧ Sim q5 q := by
  induction as with
  | nil =>
    intro s q _ _ h
    simp only [run, Option.some.injEq] at h
    subst h
    exact ⟨[], s, rfl, Sim.refl _⟩
  | cons a as ih =>
    intro s q hr hint h
    simp only [run] at h
    cases h1 : step? c s a with
    | none => rw [h1] at h; exact absurd h (by simp)
    | some s1 =>
      rw [h1] at h
      have hr1 := Reachable.step _ hr h1
      obtain ⟨cs, q5, hcs, hsim⟩ := ih hr1 (fun b hb => hint b (List.mem_cons_of_mem _ hb)) h
      have ha := hint a List.mem_cons_self
      have core : ∀ b : CA, a = b.act → ∃ cs q5, crun c s cs = some q5 ∧ Sim q5 q := by
        intro b hb
        subst hb
        exact ⟨b :: cs, q5, by rw [crun_cons, h1]; exact hcs, hsim⟩
      cases a with
      | queuerRecv => exact core .qr rfl
      | queuerEnd => exact core .qe rfl
      | schedPoll => exact core .sp rfl
      | schedEnd => exact core .se rfl
      | ret => exact core .rt rfl
      | interrupt => exact absurd rfl ha.1
      | finish f ok => exact absurd rfl (ha.2 f ok)
      | invoke f =>
        obtain ⟨_, _, rfl⟩ := invoke_cases h1
        have hs1 : Sim { s with invoked := s.invoked ++ [f] } s := rfl
        obtain ⟨q5', hq5', hs'⟩ := sim_crun hc hr1 hs1 hcs
        exact ⟨cs, q5', hq5', hs'.symm.trans hsim⟩

/-- at a quiescent point no core action changes the state -/
theorem quiescent_nf (hc : GoodCfg c) (hr : Reachable c s) (hq : Quiescent c s) : NF c s := by
  have hinv := inv0_reachable hc hr
  intro a s' h
  cases hres : s.result with
  | some r =>
    obtain ⟨hsd, hqd, _⟩ := hinv.ret0 r hres
    exfalso
    cases a
    · obtain ⟨h1, _⟩ := queuerRecv_cases h; rw [hqd] at h1; exact absurd h1 (by simp)
    · obtain ⟨h1, _⟩ := queuerEnd_cases h; rw [hqd] at h1; exact absurd h1 (by simp)
    · obtain ⟨h1, _⟩ := schedPoll_cases h; rw [hsd] at h1; exact absurd h1 (by simp)
    · obtain ⟨_, _, h1, _⟩ := schedEnd_cases h; rw [hsd] at h1; exact absurd h1 (by simp)
    · obtain ⟨_, _, h1, _⟩ := ret_cases h; rw [hres] at h1; exact absurd h1 (by simp)
  | none =>
    obtain ⟨_, ha, hb, hpoll, hd, he⟩ := nextInternal_none (quiescent_iff.mp hq) hres
    cases a
    · exfalso
      obtain ⟨h1, _, x, rest, h2, _⟩ := queuerRecv_cases h
      rcases ha with h' | h'
      · rw [h1] at h'; exact absurd h' (by simp)
      · rw [h2] at h'; exact absurd h' (by simp)
    · exfalso
      obtain ⟨h1, h2, _⟩ := queuerEnd_cases h
      rcases hb with h' | h'
      · rw [h1] at h'; exact absurd h' (by simp)
      · rw [h2] at h'; exact absurd h' (by simp)
    · obtain ⟨h1, h2, h3, _⟩ := schedPoll_cases h
      have h' : step? c s .schedPoll = some s' := h
      rcases hpoll with h4 | h4 | h4 | h4 | h4
      · rw [h1] at h4; exact absurd h4 (by simp)
      · rw [h2] at h4; exact absurd h4 (by simp)
      · rw [h3] at h4; exact absurd h4 (by simp)
      · rw [h4] at h'; exact absurd h' (by simp)
      · rw [h4] at h'; simp only [Option.some.injEq] at h'; rw [← h']; exact Sim.refl _
    · exfalso
      obtain ⟨h1, h2, h3, _⟩ := schedEnd_cases h
      exact hd ⟨h1, h2, h3⟩
    · exfalso
      obtain ⟨h1, h2, _⟩ := ret_cases h
      exact he ⟨h1, h2⟩

/-! ### `invoked` along internal runs -/

theorem internal_step_invoked {a : Action} (ha : a.internal) (h : step? c s a = some s') :
    (∀ f ∈ s.invoked, f ∈ s'.invoked) ∧ (∀ f ∈ s'.invoked, f ∈ s.invoked ∨ f ∈ s'.inflight) ∧
    (∀ f ∈ s.inflight, f ∈ s'.inflight) := by
  cases a with
  | queuerRecv =>
    obtain ⟨_, _, x, rest, _, rfl⟩ := queuerRecv_cases h
    exact ⟨fun f hf => hf, fun f hf => Or.inl hf, fun f hf => hf⟩
  | queuerEnd =>
    obtain ⟨_, _, _, rfl⟩ := queuerEnd_cases h
    exact ⟨fun f hf => hf, fun f hf => Or.inl hf, fun f hf => hf⟩
  | schedPoll =>
    obtain ⟨_, _, _, hcase⟩ := schedPoll_cases h
    rcases hcase with ⟨_, rfl⟩ | ⟨_, rfl⟩ | ⟨_, rfl⟩ | ⟨_, g, rest, _, rfl⟩ | ⟨_, g, rest, _, ⟨_, rfl⟩ | ⟨_, rfl⟩⟩
    · exact ⟨fun f hf => hf, fun f hf => Or.inl hf, fun f hf => hf⟩
    · exact ⟨fun f hf => hf, fun f hf => Or.inl hf, fun f hf => hf⟩
    · exact ⟨fun f hf => hf, fun f hf => Or.inl hf, fun f hf => hf⟩
    · exact ⟨fun f hf => hf, fun f hf => Or.inl hf, fun f hf => List.mem_append_left _ hf⟩
    · exact ⟨fun f hf => hf, fun f hf => Or.inl hf, fun f hf => List.mem_append_left _ hf⟩
    · exact ⟨fun f hf => hf, fun f hf => Or.inl hf, fun f hf => hf⟩
  | invoke g =>
    obtain ⟨hg, _, rfl⟩ := invoke_cases h
    refine ⟨fun f hf => List.mem_append_left _ hf, ?_, fun f hf => hf⟩
    intro f hf
    rcases List.mem_append.mp hf with hf | hf
    · exact Or.inl hf
    · simp only [List.mem_singleton] at hf; subst hf; exact Or.inr hg
  | finish f ok => exact absurd rfl (ha.2 f ok)
  | interrupt => exact absurd rfl ha.1
  | schedEnd =>
    obtain ⟨_, _, _, rfl⟩ := schedEnd_cases h
    exact ⟨fun f hf => hf, fun f hf => Or.inl hf, fun f hf => hf⟩
  | ret =>
    obtain ⟨_, _, _, rfl⟩ := ret_cases h
    exact ⟨fun f hf => hf, fun f hf => Or.inl hf, fun f hf => hf⟩

theorem internal_run_invoked {as : List Action} : ∀ {s q : PState}, (∀ a ∈ as, a.internal) →
    run c s as = some q →
    (∀ f ∈ s.invoked, f ∈ q.invoked) ∧ (∀ f ∈ q.invoked, f ∈ s.invoked ∨ f ∈ q.inflight) ∧
    (∀ f ∈ s.inflight, f ∈ q.inflight) := by
  induction as with
  | nil =>
    intro s q _ h
    simp only [run, Option.some.injEq] at h
    subst h
    exact ⟨fun f hf => hf, fun f hf => Or.inl hf, fun f hf => hf⟩
  | cons a as ih =>
    intro s q hint h
    simp only [run] at h
    cases h1 : step? c s a with
    | none => rw [h1] at h; exact absurd h (by simp)
    | some s1 =>
      rw [h1] at h
      obtain ⟨a1, a2, a3⟩ := internal_step_invoked (hint a List.mem_cons_self) h1
      obtain ⟨b1, b2, b3⟩ := ih (fun b hb => hint b (List.mem_cons_of_mem _ hb)) h
      refine ⟨fun f hf => b1 f (a1 f hf), ?_, fun f hf => b3 f (a3 f hf)⟩
      intro f hf
      rcases b2 f hf with hf | hf
      · rcases a2 f hf with hf | hf
        · exact Or.inl hf
        · exact Or.inr (b3 f hf)
      · exact Or.inr hf

/-! ### the theorem -/

/-- all fields but `invoked` (and the dead ready queue): the quiescent state does not depend on the
    order of the internal actions -/
theorem internal_confluence_sim (hc : GoodCfg c) (hr : Reachable c s) {as : List Action} {q : PState}
    (hint : ∀ a ∈ as, a ≠ .interrupt ∧ ∀ f ok, a ≠ .finish f ok) (hrun : run c s as = some q)
    (hq : Quiescent c q) : Sim q (settle c s) := by
  obtain ⟨bs, hbs, hrun2⟩ := settleN_run (c := c) (settleFuel c) s
  have hrq : Reachable c q := run_reachable_G hr hrun
  have hrt : Reachable c (settle c s) := settle_reachable hr
  obtain ⟨cs, q5, hcs, hs5⟩ := internal_to_core hc hr hint hrun
  obtain ⟨ds, t5, hds, ht5⟩ := internal_to_core hc hr hbs hrun2
  have hnq : NF c q5 := nf_sim hc (quiescent_nf hc hrq hq) hs5.symm (crun_reachable hr hcs)
  have hnt : NF c t5 := nf_sim hc (quiescent_nf hc hrt (settle_quiescent hc hr)) ht5.symm (crun_reachable hr hds)
  exact (hs5.symm.trans (core_confluence hc (local_conf hc) hr hcs hnq hds hnt)).trans ht5

/-- **Confluence of the internal actions.**  From a reachable state, every sequence of internal
    actions that ends in a quiescent state ends in the state `settle c s`, up to `obs`. -/
theorem internal_confluence (hc : GoodCfg c) (hr : Reachable c s) {as : List Action} {q : PState}
    (hint : ∀ a ∈ as, a ≠ .interrupt ∧ ∀ f ok, a ≠ .finish f ok) (hrun : run c s as = some q)
    (hq : Quiescent c q) : obs q = obs (settle c s) := by
  have hsim := internal_confluence_sim hc hr hint hrun hq
  obtain ⟨bs, hbs, hrun2⟩ := settleN_run (c := c) (settleFuel c) s
  have hrun2' : run c s bs = some (settle c s) := hrun2
  obtain ⟨a1, a2, _⟩ := internal_run_invoked hint hrun
  obtain ⟨b1, b2, _⟩ := internal_run_invoked hbs hrun2'
  have hn : norm q = norm (settle c s) := hsim
  have hinf : q.inflight = (settle c s).inflight := by
    have := congrArg PState.inflight hn
    exact this
  have hcanon : canon (q.invoked ++ q.inflight) = canon ((settle c s).invoked ++ (settle c s).inflight) := by
    apply canon_congr
    intro f
    simp only [List.mem_append]
    rw [← hinf]
    constructor
    · rintro (h | h)
      · rcases a2 f h with h | h
        · exact Or.inl (b1 f h)
        · exact Or.inr h
      · exact Or.inr h
    · rintro (h | h)
      · rcases b2 f h with h | h
        · exact Or.inl (a1 f h)
        · rw [hinf]; exact Or.inr h
      · exact Or.inr h
  rw [obs_eq_norm, obs_eq_norm, hcanon]
  have : norm q = norm (settle c s) := hsim
  rw [this]

/-- spelled out: every field other than `invoked` and `readyQ` — in particular the whole interrupt
    machine `im`, the hand-out order, the counts and the result — is the same; so is `readyQ` while
    the ready receiver lives, and the set of functions invoked-or-in-flight -/
theorem internal_confluence_fields (hc : GoodCfg c) (hr : Reachable c s) {as : List Action} {q : PState}
    (hint : ∀ a ∈ as, a ≠ .interrupt ∧ ∀ f ok, a ≠ .finish f ok) (hrun : run c s as = some q)
    (hq : Quiescent c q) :
    q.counts = (settle c s).counts ∧ q.readyTxOpen = (settle c s).readyTxOpen ∧
    q.readyRxOpen = (settle c s).readyRxOpen ∧ q.doneQ = (settle c s).doneQ ∧
    q.doneTxOpen = (settle c s).doneTxOpen ∧ q.released = (settle c s).released ∧
    q.qRemaining = (settle c s).qRemaining ∧ q.qDone = (settle c s).qDone ∧
    q.sRemaining = (settle c s).sRemaining ∧ q.handedOut = (settle c s).handedOut ∧
    q.inflight = (settle c s).inflight ∧ q.endedOk = (settle c s).endedOk ∧ q.failed = (settle c s).failed ∧
    q.errors = (settle c s).errors ∧ q.dropped = (settle c s).dropped ∧
    q.closeAfter = (settle c s).closeAfter ∧ q.im = (settle c s).im ∧
    q.streamEnded = (settle c s).streamEnded ∧ q.sDone = (settle c s).sDone ∧
    q.shortErr = (settle c s).shortErr ∧ q.result = (settle c s).result ∧ q.panic = (settle c s).panic ∧
    (q.readyRxOpen = true → q.readyQ = (settle c s).readyQ) ∧
    (∀ f, f ∈ q.invoked ∨ f ∈ q.inflight ↔ f ∈ (settle c s).invoked ∨ f ∈ (settle c s).inflight) ∧
    (q.result = none → q.invoked.Perm (settle c s).invoked) := by
  have h := internal_confluence hc hr hint hrun hq
  have f1 := congrArg PState.counts h
  have f3 := congrArg PState.readyTxOpen h
  have f4 := congrArg PState.readyRxOpen h
  have f5 := congrArg PState.doneQ h
  have f6 := congrArg PState.doneTxOpen h
  have f7 := congrArg PState.released h
  have f8 := congrArg PState.qRemaining h
  have f9 := congrArg PState.qDone h
  have f10 := congrArg PState.sRemaining h
  have f11 := congrArg PState.handedOut h
  have f13 := congrArg PState.inflight h
  have f14 := congrArg PState.endedOk h
  have f15 := congrArg PState.failed h
  have f16 := congrArg PState.errors h
  have f17 := congrArg PState.dropped h
  have f18 := congrArg PState.closeAfter h
  have f19 := congrArg PState.im h
  have f20 := congrArg PState.streamEnded h
  have f21 := congrArg PState.sDone h
  have f22 := congrArg PState.shortErr h
  have f23 := congrArg PState.result h
  have f24 := congrArg PState.panic h
  have f2 := congrArg PState.readyQ h
  have f12 := congrArg PState.invoked h
  have hset : ∀ f, f ∈ q.invoked ∨ f ∈ q.inflight ↔ f ∈ (settle c s).invoked ∨ f ∈ (settle c s).inflight := by
    intro f
    have h1 : f ∈ canon (q.invoked ++ q.inflight) ↔ f ∈ canon ((settle c s).invoked ++ (settle c s).inflight) := by
      have : canon (q.invoked ++ q.inflight) = canon ((settle c s).invoked ++ (settle c s).inflight) := f12
      rw [this]
    simpa only [mem_canon, List.mem_append] using h1
  refine ⟨f1, f3, f4, f5, f6, f7, f8, f9, f10, f11, f13, f14, f15, f16, f17, f18, f19, f20, f21, f22, f23, f24,
    ?_, hset, ?_⟩
  · intro hrx
    have f4' : (settle c s).readyRxOpen = true := by
      have : q.readyRxOpen = (settle c s).readyRxOpen := f4
      rw [← this]; exact hrx
    have : (if q.readyRxOpen then q.readyQ else []) = (if (settle c s).readyRxOpen then (settle c s).readyQ else []) := f2
    simpa only [hrx, f4', if_true] using this
  · intro hres
    have hrq : Reachable c q := run_reachable_G hr hrun
    have hrt : Reachable c (settle c s) := settle_reachable hr
    have hres' : (settle c s).result = none := by
      have : q.result = (settle c s).result := f23
      rw [← this]; exact hres
    have hiq := (nextInternal_none (quiescent_iff.mp hq) hres).1
    have hit := (nextInternal_none (quiescent_iff.mp (settle_quiescent hc hr)) hres').1
    apply (List.perm_ext_iff_of_nodup (inv0_reachable hc hrq).invNodup (inv0_reachable hc hrt).invNodup).mpr
    intro f
    constructor
    · intro hf
      rcases (hset f).mp (Or.inl hf) with h' | h'
      · exact h'
      · exact hit f h'
    · intro hf
      rcases (hset f).mpr (Or.inl hf) with h' | h'
      · exact h'
      · exact hiq f h'

/-! ### the observation cannot be the identity: three kernel-checked counterexamples -/

def isInternalB : Action → Bool
  | .interrupt => false
  | .finish _ _ => false
  | _ => true

theorem internal_of_all {as : List Action} (h : as.all isInternalB = true) :
    ∀ a ∈ as, a ≠ .interrupt ∧ ∀ f ok, a ≠ .finish f ok := by
  intro a ha
  have := List.all_eq_true.mp h a ha
  cases a <;> simp [isInternalB] at this ⊢

/-- diamond `0→1, 0→2, 1→3, 2→3`, at most two functions at a time -/
def cfA_L : Cfg := { D := exDag_F, counts0 := [0, 1, 1, 2], limit := some 2 }
/-- `0` handed out, invoked and successfully returned; nothing else has happened -/
def sA_L : PState := (run cfA_L (init cfA_L) [.schedPoll, .invoke 0, .finish 0 true]).getD default
/-- the scheduler polls (`Pending`) BEFORE the queuer folds the done id, then polls again; `1` is
    invoked before `2` although `2` was handed out first -/
def asA_L : List Action := [.schedPoll, .queuerRecv, .schedPoll, .schedPoll, .invoke 1, .invoke 2]
def qA_L : PState := (run cfA_L sA_L asA_L).getD default

theorem cfA_good_L : GoodCfg cfA_L := exCfg_good_F _ rfl rfl
set_option maxRecDepth 100000 in
theorem sA_reach_L : Reachable cfA_L sA_L :=
  run_reachable_F .init (as := [.schedPoll, .invoke 0, .finish 0 true]) (by decide)
set_option maxRecDepth 100000 in
theorem asA_run_L : run cfA_L sA_L asA_L = some qA_L := by decide
set_option maxRecDepth 100000 in
theorem qA_quiescent_L : Quiescent cfA_L qA_L := by decide

set_option maxRecDepth 100000 in
/-- (a) the ORDER of `invoked` depends on the order of the internal actions -/
theorem confluence_not_id_invoked_order :
    qA_L.invoked = [0, 1, 2] ∧ (settle cfA_L sA_L).invoked = [0, 2, 1] ∧ qA_L ≠ settle cfA_L sA_L := by decide

/-- hence the statement with `obs = id` is false -/
theorem internal_confluence_id_false :
    ¬ (∀ (c : Cfg) (s : PState) (as : List Action) (q : PState), GoodCfg c → Reachable c s →
        (∀ a ∈ as, a ≠ .interrupt ∧ ∀ f ok, a ≠ .finish f ok) → run c s as = some q → Quiescent c q →
        q = settle c s) := by
  intro H
  exact confluence_not_id_invoked_order.2.2
    (H cfA_L sA_L asA_L qA_L cfA_good_L sA_reach_L (internal_of_all (by decide)) asA_run_L qA_quiescent_L)

/- non-vacuity of `internal_confluence`: the run above is not the order `settle` takes, passes through a
   state-changing `Pending` poll, ends in a different state, and the theorem identifies the two
   observations; concretely the interrupt machines, hand-out orders and invoked SETS agree -/
example : obs qA_L = obs (settle cfA_L sA_L) :=
  internal_confluence cfA_good_L sA_reach_L (internal_of_all (by decide)) asA_run_L qA_quiescent_L
set_option maxRecDepth 100000 in
example : qA_L.handedOut = [0, 2, 1] ∧ (obs qA_L).invoked = [0, 1, 2] ∧ qA_L.inflight = [2, 1] ∧
    (step? cfA_L sA_L .schedPoll).map (fun t => t.im.hp) = some true ∧ sA_L.im.hp = false ∧
    qA_L.im = (settle cfA_L sA_L).im := by decide

/-- interruptible diamond, strategy `FinishCurrent` -/
def cfB_L : Cfg := { D := exDag_F, counts0 := [0, 1, 1, 2], strat := .finish }
/-- `0` has returned (its done id is in the channel) and an interrupt signal has been sent -/
def sB_L : PState := (run cfB_L (init cfB_L) [.schedPoll, .invoke 0, .finish 0 true, .interrupt]).getD default
/-- the scheduler sees the interrupt and ends the stream BEFORE the queuer folds the done id -/
def asB_L : List Action := [.schedPoll, .schedPoll, .queuerRecv, .queuerEnd, .schedEnd, .ret]
def qB_L : PState := (run cfB_L sB_L asB_L).getD default

set_option maxRecDepth 100000 in
/-- (b) the ready queue after its receiver is dropped depends on the order: `settle` (queuer first) leaves
    the released children `2, 1` in it, the other order leaves it empty.  Everything else agrees. -/
theorem confluence_not_id_readyQ :
    GoodCfg cfB_L ∧ Reachable cfB_L sB_L ∧ (∀ a ∈ asB_L, a ≠ .interrupt ∧ ∀ f ok, a ≠ .finish f ok) ∧
    run cfB_L sB_L asB_L = some qB_L ∧ Quiescent cfB_L qB_L ∧
    qB_L.readyQ = [] ∧ (settle cfB_L sB_L).readyQ = [2, 1] ∧ qB_L.readyRxOpen = false ∧
    obs qB_L = obs (settle cfB_L sB_L) :=
  ⟨exCfg_good_F _ rfl rfl,
   run_reachable_F .init (as := [.schedPoll, .invoke 0, .finish 0 true, .interrupt]) (by decide),
   internal_of_all (by decide), by decide, by decide, by decide, by decide, by decide, by decide⟩

/-- `0` and `1` handed out, `1` invoked and failed: the short-circuiting scheduler is done while `0`
    is in flight and not yet invoked (`cxCfg_F` is not `ApiOk`: no real API is like this) -/
def sC_L : PState := (run cxCfg_F (init cxCfg_F) [.schedPoll, .schedPoll, .invoke 1, .finish 1 false]).getD default
def asC_L : List Action := [.queuerEnd, .ret]
def qC_L : PState := (run cxCfg_F sC_L asC_L).getD default

set_option maxRecDepth 100000 in
/-- (c) non-sequential `shortCircuit` only: once the call has returned, a quiescent state need not have
    invoked what is in flight, `settle` always has — even the SET `invoked` differs; `invoked ∪ inflight`
    does not. -/
theorem confluence_not_id_invoked_set :
    GoodCfg cxCfg_F ∧ Reachable cxCfg_F sC_L ∧ (∀ a ∈ asC_L, a ≠ .interrupt ∧ ∀ f ok, a ≠ .finish f ok) ∧
    run cxCfg_F sC_L asC_L = some qC_L ∧ Quiescent cxCfg_F qC_L ∧
    qC_L.invoked = [1] ∧ (settle cxCfg_F sC_L).invoked = [1, 0] ∧ qC_L.inflight = [0] ∧
    qC_L.result = some (.err 1) ∧ obs qC_L = obs (settle cxCfg_F sC_L) :=
  ⟨cxCfg_good_F,
   run_reachable_F .init (as := [.schedPoll, .schedPoll, .invoke 1, .finish 1 false]) (by decide),
   internal_of_all (by decide), by decide, by decide, by decide, by decide, by decide, by decide, by decide⟩

end FG
