/-
  Theorems/C12.lean — direction of data edges, non-redundancy, determinism, inequality.
-/
import FnGraphVerif.Theorems.Build
namespace FG

/-- what `build` puts into the `graph` and `ranks` fields -/
theorem build_graph_eq {b : BState} {G : FnGraph} (hb : build b = some G) :
    ∃ rk, rankCalc b.graph = some rk ∧ G.graph = (augment b.graph b.fns rk.ranks).g ∧
      G.ranks = rk.ranks := by
  unfold build at hb
  split at hb
  · cases hb
  · rename_i rk hrk
    simp only at hb
    split at hb
    · cases hb
    · split at hb
      · cases hb
      · cases hb
        exact ⟨rk, hrk, rfl, rfl⟩

/-- `augment` is called by `build` on an input that satisfies its precondition -/
theorem build_augIn {b : BState} (h : BReach b) {rk : RankSt} (hrk : rankCalc b.graph = some rk) :
    AugIn b.graph rk.ranks :=
  ⟨(breach_good h).1, (ranks_longest (breach_good h).1 hrk).1,
    fun _ _ he => ranks_strict (breach_good h).1 hrk he⟩

set_option linter.unusedVariables false in
/-- **C12** (direction): two conflicting functions not ordered by logic/contains edges are ordered in
    the built graph with the lower logic rank first and, at equal rank, the earlier inserted first.
    (`hnu`/`hnv` are not needed by the proof: see `built_path_forward` below.) -/
theorem conflict_direction {b : BState} (h : BReach b) {G : FnGraph} (hb : build b = some G) {u v : Nat}
    (hu : u < b.fns.length) (hv : v < b.fns.length) (hne : u ≠ v)
    (hcf : conflict (declOf b.fns u) (declOf b.fns v) = true)
    (hnu : ¬ ReachP b.graph u v) (hnv : ¬ ReachP b.graph v u) :
    ReachP G.graph u v ↔
      (G.ranks[u]?.getD 0 < G.ranks[v]?.getD 0 ∨ (G.ranks[u]?.getD 0 = G.ranks[v]?.getD 0 ∧ u < v)) := by
  obtain ⟨rk, hrk, hg, hr⟩ := build_graph_eq hb
  have hin := build_augIn h hrk
  have hu' : u < b.graph.n := hu
  have hv' : v < b.graph.n := hv
  rw [hg, hr, ← (rankOrder_spec b.graph.n rk.ranks).2 u v hu' hv']
  constructor
  · exact fun hp => augment_forward_path hin hp
  · intro hpos
    rcases (augment_sound (decls := b.fns) hin).2.2.2.2.1 u v hu' hv' hne hcf with hp | hp
    · exact hp
    · have := augment_forward_path hin hp
      omega

/-- the same without the (unneeded) hypotheses that the user's edges do not order the pair: in the
    built graph EVERY path goes forward in (rank, insertion order) -/
theorem built_path_forward {b : BState} (h : BReach b) {G : FnGraph} (hb : build b = some G) {u v : Nat}
    (hp : ReachP G.graph u v) :
    G.ranks[u]?.getD 0 < G.ranks[v]?.getD 0 ∨ (G.ranks[u]?.getD 0 = G.ranks[v]?.getD 0 ∧ u < v) := by
  obtain ⟨rk, hrk, hg, hr⟩ := build_graph_eq hb
  have hin := build_augIn h hrk
  rw [hg] at hp
  have hwf := (augment_sound (decls := b.fns) hin).2.2.2.1.wf
  have hn := (augment_sound (decls := b.fns) hin).2.1
  have hu' : u < b.graph.n := by rw [← hn]; exact hp.src_lt hwf
  have hv' : v < b.graph.n := by rw [← hn]; exact hp.tgt_lt hwf
  rw [hr, ← (rankOrder_spec b.graph.n rk.ranks).2 u v hu' hv']
  exact augment_forward_path hin hp

/-- **C12** (non-redundancy): no `Data` edge repeats an ordering already implied by the other edges -/
theorem data_edge_not_redundant {b : BState} (h : BReach b) {G : FnGraph} (hb : build b = some G)
    {i : Nat} {e : Edge} (hi : G.graph.edges[i]? = some e) (hk : e.kind = .data) :
    ¬ Reach ⟨G.graph.n, G.graph.edges.eraseIdx i⟩ e.src e.tgt := by
  obtain ⟨rk, hrk, hg, hr⟩ := build_graph_eq hb
  have hin := build_augIn h hrk
  obtain ⟨_, hn, ⟨Dd, hed, _⟩, _⟩ := augment_sound (decls := b.fns) hin
  rw [hg] at hi ⊢
  have hge : b.graph.edges.length ≤ i := by
    rcases Nat.lt_or_ge i b.graph.edges.length with hlt | hge
    · exfalso
      rw [hed, List.getElem?_append_left hlt] at hi
      exact (breach_good h).2 e (List.mem_of_getElem? hi) hk
    · exact hge
  rw [hn]
  exact augment_not_redundant hin hi hge

/-! ### non-vacuity

  Three functions: `0` writes resource 7, `2` reads it, `1` touches nothing; one user edge
  `0 →logic 1`.  Ranks are `[0,1,0]`; the conflicting pair `0,2` is not ordered by the user, has
  equal rank, so the earlier inserted `0` goes first: `build` adds `0 →data 2`. -/

def exB_D : BState :=
  (applyOps BState.empty [.addFn ⟨[], [7], 0⟩, .addFn ⟨[], [], 1⟩, .addFn ⟨[7], [], 2⟩, .edge .logic 0 1]).1

theorem exB_reach_D : BReach exB_D :=
  BReach.step (.edge .logic 0 1) rfl
    (BReach.step (.addFn ⟨[7], [], 2⟩) rfl
      (BReach.step (.addFn ⟨[], [], 1⟩) rfl
        (BReach.step (.addFn ⟨[], [7], 0⟩) rfl BReach.empty)))

def exBuilt_D : FnGraph :=
  { decls := [⟨[], [7], 0⟩, ⟨[], [], 1⟩, ⟨[7], [], 2⟩],
    graph := ⟨3, [⟨0, 1, .logic⟩, ⟨0, 2, .data⟩]⟩,
    struct := ⟨3, [⟨0, 1, .logic⟩, ⟨0, 2, .data⟩]⟩,
    structRev := ⟨3, [⟨1, 0, .logic⟩, ⟨2, 0, .data⟩]⟩,
    ranks := [0, 1, 0], incoming := [0, 1, 1], outgoing := [2, 0, 0], pops := 3, pathChecks := 3 }

theorem exB_build_D : build exB_D = some exBuilt_D := by decide

theorem exB_unordered_D : ¬ ReachP exB_D.graph 0 2 ∧ ¬ ReachP exB_D.graph 2 0 := by
  have hwf : WF exB_D.graph := by
    have hE : exB_D.graph.edges = [⟨0, 1, .logic⟩] := by decide
    intro e he
    rw [hE, List.mem_singleton] at he
    subst he; decide
  constructor
  · intro hp
    have := (hasPath_iff_reach hwf (by decide : 0 < exB_D.graph.n) 2).mpr (Reach.of_reachP hp)
    revert this; decide
  · intro hp
    have := (hasPath_iff_reach hwf (by decide : 2 < exB_D.graph.n) 0).mpr (Reach.of_reachP hp)
    revert this; decide

/-- `conflict_direction` exercised: equal ranks, `0 < 2`, hence a path `0 ⟶ 2` -/
example : ReachP exBuilt_D.graph 0 2 :=
  (conflict_direction exB_reach_D exB_build_D (u := 0) (v := 2) (by decide) (by decide) (by decide)
    (by decide) exB_unordered_D.1 exB_unordered_D.2).mpr (by decide)

/-- `data_edge_not_redundant` exercised on the data edge at index 1 -/
example : ¬ Reach ⟨3, [⟨0, 1, .logic⟩]⟩ 0 2 :=
  data_edge_not_redundant exB_reach_D exB_build_D (i := 1) (e := ⟨0, 2, .data⟩) (by decide) rfl

end FG
