/-
  Theorems/C11.lean — `DataEdgeAugmenter::augment` never fails, keeps the user's edges as a
  prefix, adds only `Data` edges and only between conflicting functions, keeps the graph
  acyclic, orders every conflicting pair, and makes at most `n²` path checks.
-/
import FnGraphVerif.Proofs.BuilderInv
import FnGraphVerif.Model.Augment
import FnGraphVerif.Model.Spec
import FnGraphVerif.Proofs.DAug
namespace FG

/-- what `augment` needs of its input: a good graph and ranks that rise strictly along every edge
    (which `ranks_strict` of C13 provides) -/
structure AugIn (g : Dag) (ranks : List Nat) : Prop where
  good : GoodG g
  len : ranks.length = g.n
  strict : ∀ u v, IsEdge g u v → ranks[u]?.getD 0 < ranks[v]?.getD 0

/-- position of a function in the rank-sorted order (rank first, insertion order at equal rank) -/
def posOf (n : Nat) (ranks : List Nat) (v : Nat) : Nat := idxOf (rankOrder n ranks) v

/-- the sorted order is a permutation, sorted by rank, stable -/
theorem rankOrder_spec (n : Nat) (ranks : List Nat) :
    (rankOrder n ranks).Perm (List.range n) ∧
    (∀ u v, u < n → v < n →
      (posOf n ranks u < posOf n ranks v ↔
        (ranks[u]?.getD 0 < ranks[v]?.getD 0 ∨ (ranks[u]?.getD 0 = ranks[v]?.getD 0 ∧ u < v)))) := by
  obtain ⟨hpw, hperm⟩ := sortByRank_spec (fun i => ranks[i]?.getD 0) n
  refine ⟨hperm, ?_⟩
  intro u v hu hv
  have hum : u ∈ rankOrder n ranks := hperm.mem_iff.mpr (List.mem_range.mpr hu)
  have hvm : v ∈ rankOrder n ranks := hperm.mem_iff.mpr (List.mem_range.mpr hv)
  exact idxOf_lt_iff_of_pairwise (R := rlt (fun i => ranks[i]?.getD 0)) hpw
    (fun a => rlt_irrefl a) (fun a b h => rlt_asymm h) hum hvm

/-- non-vacuity: ranks `[0,1,2,0]` put node 3 (rank 0, inserted last) right after node 0 -/
example : rankOrder 4 [0, 1, 2, 0] = [0, 3, 1, 2] := by decide
example : posOf 4 [0, 1, 2, 0] 3 < posOf 4 [0, 1, 2, 0] 1 := by decide

/-- the rank-sorted order is a forward numbering of the input graph -/
theorem AugIn.ctx {g : Dag} {ranks : List Nat} (h : AugIn g ranks) : OrdCtx g (rankOrder g.n ranks) := by
  obtain ⟨hperm, hpos⟩ := rankOrder_spec g.n ranks
  refine ⟨h.good, hperm.nodup_iff.mpr List.nodup_range, ?_, ?_, ?_⟩
  · intro v; rw [hperm.mem_iff, List.mem_range]
  · rw [hperm.length_eq, List.length_range]
  · intro u v he
    obtain ⟨hu, hv⟩ := he.lt h.good.wf
    exact (hpos u v hu hv).mpr (Or.inl (h.strict u v he))

/-- the loop invariant holds of the final state -/
theorem augment_inv {g : Dag} (decls : List FnDecl) {ranks : List Nat} (h : AugIn g ranks) :
    ∃ Dd B, AInv g decls (rankOrder g.n ranks) (augment g decls ranks) Dd 0 B ∧
      Joined g decls (rankOrder g.n ranks) (augment g decls ranks) 0 ∧
      (augment g decls ranks).checks ≤ g.n * g.n := by
  have ctx := h.ctx
  have hj : Joined g decls (rankOrder g.n ranks) ⟨g, 0, true⟩ g.n := by
    intro a b ha _ hpa _ _
    have := pos_lt ctx ha
    omega
  obtain ⟨Dd, B, inv, hj', hc⟩ := augOuter_fold (decls := decls) ctx g.n (Nat.le_refl _) ⟨g, 0, true⟩ [] 0
    (AInv.init g decls _ h.good _ _) hj
  refine ⟨Dd, B, inv, hj', ?_⟩
  simpa [augment] using hc

theorem any_any_comm (xs ys : List Nat) :
    xs.any (fun l => ys.any (fun r => l == r)) = ys.any (fun l => xs.any (fun r => l == r)) := by
  rw [Bool.eq_iff_iff]
  simp only [List.any_eq_true, beq_iff_eq]
  constructor
  · rintro ⟨x, hx, y, hy, rfl⟩; exact ⟨x, hy, x, hx, rfl⟩
  · rintro ⟨x, hx, y, hy, rfl⟩; exact ⟨x, hy, x, hx, rfl⟩

theorem conflict_comm (a b : FnDecl) : conflict a b = conflict b a := by
  unfold conflict
  rw [any_any_comm a.reads b.writes, any_any_comm a.writes b.reads, any_any_comm a.writes b.writes]
  generalize b.writes.any (fun l => a.reads.any (fun r => l == r)) = p
  generalize b.reads.any (fun l => a.writes.any (fun r => l == r)) = q
  generalize b.writes.any (fun l => a.writes.any (fun r => l == r)) = r
  cases p <;> cases q <;> cases r <;> rfl

/-- **C11** (and the builder half of C01 / C06, and C18's second clause) -/
theorem augment_sound {g : Dag} {decls : List FnDecl} {ranks : List Nat} (h : AugIn g ranks) :
    (augment g decls ranks).ok = true ∧
    (augment g decls ranks).g.n = g.n ∧
    (∃ Dd, (augment g decls ranks).g.edges = g.edges ++ Dd ∧
      ∀ e ∈ Dd, e.kind = .data ∧ conflict (declOf decls e.src) (declOf decls e.tgt) = true ∧
                posOf g.n ranks e.src < posOf g.n ranks e.tgt) ∧
    GoodG (augment g decls ranks).g ∧
    (∀ u v, u < g.n → v < g.n → u ≠ v → conflict (declOf decls u) (declOf decls v) = true →
      ReachP (augment g decls ranks).g u v ∨ ReachP (augment g decls ranks).g v u) ∧
    (augment g decls ranks).checks ≤ g.n * g.n := by
  have ctx := h.ctx
  obtain ⟨Dd, B, inv, hj, hc⟩ := augment_inv decls h
  refine ⟨inv.ok, inv.n, ⟨Dd, inv.edges, ?_⟩, inv.goodG ctx, ?_, hc⟩
  · intro e he
    obtain ⟨h1, h2, _, _, h5⟩ := inv.data e he
    exact ⟨h1, h2, h5⟩
  · intro u v hu hv hne hcf
    have hum := (ctx.mem u).mpr hu
    have hvm := (ctx.mem v).mpr hv
    rcases Nat.lt_trichotomy (idxOf (rankOrder g.n ranks) u) (idxOf (rankOrder g.n ranks) v) with hlt | heq | hgt
    · rcases (hj u v hu hv (Nat.zero_le _) hlt hcf).cases_head with he | hp
      · exact absurd he hne
      · exact Or.inl hp
    · exact absurd (idxOf_inj hum hvm heq) hne
    · rcases (hj v u hv hu (Nat.zero_le _) hgt (by rw [conflict_comm]; exact hcf)).cases_head with he | hp
      · exact absurd he.symm hne
      · exact Or.inr hp

/-- every edge of the augmented graph points forward in the rank-sorted order -/
theorem augment_forward {g : Dag} {decls : List FnDecl} {ranks : List Nat} (h : AugIn g ranks) {u v : Nat}
    (he : IsEdge (augment g decls ranks).g u v) : posOf g.n ranks u < posOf g.n ranks v := by
  obtain ⟨Dd, B, inv, _, _⟩ := augment_inv decls h
  exact inv.fwd h.ctx he

/-- hence so does every path -/
theorem augment_forward_path {g : Dag} {decls : List FnDecl} {ranks : List Nat} (h : AugIn g ranks) {u v : Nat}
    (hp : ReachP (augment g decls ranks).g u v) : posOf g.n ranks u < posOf g.n ranks v :=
  reachP_numbering (posOf g.n ranks) (fun _ _ he => augment_forward h he) hp

/-- (for C12) an added edge is not implied by the other edges of the final graph -/
theorem augment_not_redundant {g : Dag} {decls : List FnDecl} {ranks : List Nat} (h : AugIn g ranks)
    {i : Nat} {e : Edge} (hi : (augment g decls ranks).g.edges[i]? = some e) (hge : g.edges.length ≤ i) :
    ¬ Reach ⟨g.n, (augment g decls ranks).g.edges.eraseIdx i⟩ e.src e.tgt := by
  obtain ⟨Dd, B, inv, _, _⟩ := augment_inv decls h
  rw [inv.edges] at hi ⊢
  rw [List.getElem?_append_right hge] at hi
  rw [List.eraseIdx_append_of_length_le hge, List.eraseIdx_eq_take_drop_succ, ← List.append_assoc]
  obtain ⟨hlt, hget⟩ := List.getElem?_eq_some_iff.mp hi
  apply inv.not_redundant h.ctx
  rw [← hget, List.getElem_cons_drop hlt, List.take_append_drop]

/-- **C06**: read/read sharing is not a conflict (a write is required on one side) -/
theorem conflict_needs_write (a b : FnDecl) (h : conflict a b = true) : a.writes ≠ [] ∨ b.writes ≠ [] := by
  by_cases h1 : a.writes = []
  · by_cases h2 : b.writes = []
    · simp [conflict, h1, h2] at h
    · exact Or.inr h2
  · exact Or.inl h1

/-! ### non-vacuity: a four-node instance

  `0 →logic 1 →contains 2`, node `3` isolated; `0` and `2` write resource 7, `3` reads it.
  Ranks `[0,1,2,0]`, order `[0,3,1,2]`.  The scan adds `3 → 2` and then `0 → 3` (the pair `0,2`
  is already ordered by the user's edges) and makes `1 + 2 + 3 = 6` path checks. -/

def exG_D : Dag := ⟨4, [⟨0, 1, .logic⟩, ⟨1, 2, .contains⟩]⟩
def exDecls_D : List FnDecl := [⟨[], [7], 0⟩, ⟨[], [], 1⟩, ⟨[], [7], 2⟩, ⟨[7], [], 3⟩]
def exRanks_D : List Nat := [0, 1, 2, 0]

theorem exAugIn_D : AugIn exG_D exRanks_D := by
  have hstrict : ∀ u v, IsEdge exG_D u v → exRanks_D[u]?.getD 0 < exRanks_D[v]?.getD 0 := by
    rintro u v ⟨e, he, rfl, rfl⟩
    simp only [exG_D, List.mem_cons, List.not_mem_nil, or_false] at he
    rcases he with rfl | rfl <;> decide
  refine ⟨⟨?_, ?_, acyclic_of_numbering _ hstrict⟩, rfl, hstrict⟩
  · intro e he
    simp only [exG_D, List.mem_cons, List.not_mem_nil, or_false] at he
    rcases he with rfl | rfl <;> decide
  · have h0 : Simple ⟨4, []⟩ := by intro u; simp [children, parents]
    have h1 : Simple (addE ⟨4, []⟩ ⟨0, 1, .logic⟩) :=
      simple_addE h0 (by rintro ⟨e, he, _⟩; simp at he)
    have h2 : Simple (addE (addE ⟨4, []⟩ ⟨0, 1, .logic⟩) ⟨1, 2, .contains⟩) := by
      apply simple_addE h1
      rintro ⟨e, he, hs, _⟩
      simp only [addE, List.nil_append, List.mem_singleton] at he
      subst he
      simp at hs
    exact h2

example : augment exG_D exDecls_D exRanks_D =
    ⟨⟨4, [⟨0, 1, .logic⟩, ⟨1, 2, .contains⟩, ⟨3, 2, .data⟩, ⟨0, 3, .data⟩]⟩, 6, true⟩ := by decide

/-- the theorem applied to the instance: the read/write pair `3,2` really is joined -/
example : ReachP (augment exG_D exDecls_D exRanks_D).g 3 2 ∨ ReachP (augment exG_D exDecls_D exRanks_D).g 2 3 :=
  (augment_sound (decls := exDecls_D) exAugIn_D).2.2.2.2.1 3 2 (by decide) (by decide) (by decide) (by decide)

example : conflict ⟨[7], [], 0⟩ ⟨[7], [], 1⟩ = false ∧ conflict ⟨[7], [], 0⟩ ⟨[], [7], 1⟩ = true := by decide
example : conflict ⟨[], [7], 1⟩ ⟨[7], [], 0⟩ = conflict ⟨[7], [], 0⟩ ⟨[], [7], 1⟩ := conflict_comm _ _

end FG
