/-
  Theorems/C05.lean — `stream()` / `stream_with()` / `stream*_interruptible()` at poll level, with
  wakers: no lost wake-up, ends exactly at the end, never panics; plus the stream forms of
  C01 / C02 / C03.  All statements are about the closure AFTER the `fix:` commit (`drain = true`)
  and hold for every interleaving of polls, `FnRef` drops (any number between polls), interrupt
  signals and an early drop of the stream.
-/
import FnGraphVerif.Proofs.ProtoInv
import FnGraphVerif.Model.StreamPoll
import FnGraphVerif.Proofs.StreamInv
import FnGraphVerif.Proofs.StreamGood
namespace FG

variable {c : Cfg} {s : SState}

/-- some function is not yet yielded although the `FnRef`s of all its predecessors were dropped -/
def needsPoll (c : Cfg) (s : SState) : Prop :=
  ∃ v, v < c.n ∧ v ∉ s.yielded ∧ ∀ p ∈ parents c.D v, p ∈ s.droppedRefs

/-- **C05**: dropping `FnRef`s or the stream in any order, polling at any time: no panic -/
theorem stream_no_panic (hc : GoodCfg c) (hr : SReachable c true s) : s.panic = false := by
  exact (sinv_reachable hc hr).core.noPanic

/-- non-vacuity: a run on the diamond with drops before, between and after polls and an early stream drop -/
example : SReachable exDiamond_I true
      (exRun_I exDiamond_I true [.poll, .drop 0, .poll, .poll, .drop 2, .interrupt, .poll, .drop 1, .dropStream]) ∧
    (exRun_I exDiamond_I true [.poll, .drop 0, .poll, .poll, .drop 2, .interrupt, .poll, .drop 1, .dropStream]).panic
      = false :=
  ⟨exRun_reachable_I (by decide), stream_no_panic exDiamond_good_I (exRun_reachable_I (by decide))⟩

/-- **C05** (no lost wake-up): whenever the consumer is parked (its last poll returned `Pending`)
    and some function has all its predecessors dropped, a wake-up has been signalled. -/
theorem no_lost_wakeup (hc : GoodCfg c) (hr : SReachable c true s) (hd : s.streamDropped = false)
    (hp : s.lastPending = true) (hn : needsPoll c s) : s.wake = true := by
  have hi := sinv_reachable hc hr
  rcases hi.park.parkedWake hp hd with hw | ⟨hq, _⟩
  · exact hw
  · exfalso
    obtain ⟨v, hv, hvy, hpar⟩ := hn
    obtain ⟨htx, hrq⟩ := hi.park.parked hp
    have hrel : ∀ p ∈ parents c.D v, p ∈ s.released := by
      intro p hpm
      rcases hi.core.droppedDone hd p (hpar p hpm) with h1 | h1
      · exact h1
      · rw [hq] at h1; cases h1
    rcases hi.core.complete htx v hv hrel with h1 | h1
    · rw [hrq] at h1; cases h1
    · exact hvy h1

/-- non-vacuity: on the join `0 → 2 ← 1`: yield 0, yield 1, park, drop both refs.  The consumer is
    parked, node 2 needs a poll — and the wake flag is indeed set. -/
example :
    let s := exRun_I exJoin_I true [.poll, .poll, .poll, .drop 0, .drop 1]
    SReachable exJoin_I true s ∧ s.streamDropped = false ∧ s.lastPending = true ∧ needsPoll exJoin_I s ∧
      s.wake = true :=
  ⟨exRun_reachable_I (by decide), by decide, by decide, ⟨2, by decide, by decide, by decide⟩, by decide⟩

/-- **C05**: a poll that returns `Pending` without a wake-up leaves every unyielded function blocked
    by an undropped `FnRef` of a direct predecessor -/
theorem pending_not_stalled (hc : GoodCfg c) (hr : SReachable c true s) (hd : s.streamDropped = false)
    (hp : (sipoll c true s).2.1 = .pending) :
    (sipoll c true s).1.wake = true ∨
    ∀ v, v < c.n → v ∉ (sipoll c true s).1.yielded → ∃ p ∈ parents c.D v, p ∉ (sipoll c true s).1.droppedRefs := by
  have hr' : SReachable c true (sipoll c true s).1 :=
    SReachable.step .poll hr (by simp [sstep?, hd])
  obtain ⟨_, a2, a3, _⟩ := sipoll_spec_I hc (sinv_reachable hc hr).core
  by_cases hw : (sipoll c true s).1.wake = true
  · exact Or.inl hw
  · right
    intro v hv hvy
    apply Classical.byContradiction
    intro hcon
    apply hw
    apply no_lost_wakeup hc hr' (a2.trans hd) (a3.mpr hp)
    refine ⟨v, hv, hvy, ?_⟩
    intro p hpm
    apply Classical.byContradiction
    intro hpd
    exact hcon ⟨p, hpm, hpd⟩

/-- non-vacuity: on the diamond after yielding 0 the second poll answers `Pending` (0's ref is live) -/
example : SReachable exDiamond_I true (exRun_I exDiamond_I true [.poll]) ∧
    (exRun_I exDiamond_I true [.poll]).streamDropped = false ∧
    (sipoll exDiamond_I true (exRun_I exDiamond_I true [.poll])).2.1 = .pending :=
  ⟨exRun_reachable_I (by decide), by decide, by decide⟩

/-- **C05** (progress): if some function has all predecessors dropped, the next poll of the plain
    stream does not answer `Pending` — something is yielded without any unrelated event -/
theorem poll_progress (hc : GoodCfg c) (hr : SReachable c true s) (hd : s.streamDropped = false)
    (hn : needsPoll c s) : ∃ f, (spoll c true s).2 = .some f := by
  have hi := (sinv_reachable hc hr).core
  obtain ⟨v, hv, hvy, hpar⟩ := hn
  obtain ⟨d, hdc, hso, _, hrel, _, heq⟩ := spoll_cases hc hi
  rw [heq]
  have htx : s.txOpen = true := by
    apply hi.tx.mpr
    intro h0
    have hlen : c.n ≤ s.yielded.length := by have := hi.rem; omega
    exact hvy (mem_of_nodup_full (List.nodup_append.mp hi.queueNodup).2.1
      (fun x hx => hi.bound x (Or.inr hx)) hlen hv)
  have hdtx : d.txOpen = true := hso.txOpen.trans htx
  apply (spollTail_facts d).2.2.2 hdtx
  have hrel' : ∀ p ∈ parents c.D v, p ∈ d.released := by
    intro p hpm
    rw [hrel]
    rcases hi.droppedDone hd p (hpar p hpm) with h1 | h1
    · exact List.mem_append_left _ h1
    · exact List.mem_append_right _ h1
  rcases hdc.complete hdtx v hv hrel' with h1 | h1
  · exact List.ne_nil_of_mem h1
  · rw [hso.yielded] at h1; exact absurd h1 hvy

/-- non-vacuity: on the diamond after `poll, drop 0` nodes 1 and 2 need a poll; the poll yields 2
    (adjacency order: most recently added edge first) -/
example :
    let s := exRun_I exDiamond_I true [.poll, .drop 0]
    SReachable exDiamond_I true s ∧ s.streamDropped = false ∧ needsPoll exDiamond_I s ∧
      (spoll exDiamond_I true s).2 = .some 2 :=
  ⟨exRun_reachable_I (by decide), by decide, ⟨1, by decide, by decide, by decide⟩, by decide⟩

/-- **C05**: the plain stream yields `None` exactly after all functions were yielded -/
theorem none_iff_all_yielded (hc : GoodCfg c) (hr : SReachable c true s) (hst : c.strat = .non) :
    (spoll c true s).2 = .none ↔ s.yielded.Perm (List.range c.n) := by
  have hi := (sinv_reachable hc hr).core
  obtain ⟨d, _, hso, _, _, _, heq⟩ := spoll_cases hc hi
  rw [heq, (spollTail_facts d).2.2.1, hso.txOpen]
  have hnd := (List.nodup_append.mp hi.queueNodup).2.1
  have hb : ∀ x ∈ s.yielded, x < c.n := fun x hx => hi.bound x (Or.inr hx)
  have hrem := hi.rem
  constructor
  · intro htx
    have h0 : s.fnsRemaining = 0 := by
      apply Classical.byContradiction
      intro hne
      rw [hi.tx.mpr hne] at htx; cases htx
    exact perm_range_of_nodup_full hnd hb (by omega)
  · intro hperm
    have hlen := hperm.length_eq
    rw [List.length_range] at hlen
    cases htx : s.txOpen
    · rfl
    · exact absurd (by omega) (hi.tx.mp htx)

/-- non-vacuity: on the join, after everything was yielded the poll answers `None`; before, it does not -/
example :
    let s := exRun_I exJoin_I true [.poll, .poll, .drop 1, .drop 0, .poll]
    SReachable exJoin_I true s ∧ exJoin_I.strat = .non ∧ (spoll exJoin_I true s).2 = .none ∧
      (spoll exJoin_I true (exRun_I exJoin_I true [.poll, .poll, .drop 1])).2 ≠ .none :=
  ⟨exRun_reachable_I (by decide), rfl, by decide, by decide⟩

/-- **C03** (stream form): nothing is queued or yielded twice -/
theorem stream_yield_nodup (hc : GoodCfg c) (hr : SReachable c true s) : (s.readyQ ++ s.yielded).Nodup := by
  exact (sinv_reachable hc hr).core.queueNodup

example : SReachable exDiamond_I true (exRun_I exDiamond_I true [.poll, .drop 0, .poll]) ∧
    (exRun_I exDiamond_I true [.poll, .drop 0, .poll]).readyQ ++ (exRun_I exDiamond_I true [.poll, .drop 0, .poll]).yielded
      = [1, 0, 2] :=
  ⟨exRun_reachable_I (by decide), by decide⟩

/-- **C02** (stream form): a function is yielded only after the `FnRef`s of all its ancestors were dropped -/
theorem stream_yield_after_ancestors (hc : GoodCfg c) (hr : SReachable c true s) {u v : Nat}
    (hv : v ∈ s.readyQ ∨ v ∈ s.yielded) (huv : ReachP c.D u v) : u ∈ s.droppedRefs ∧ u ∉ s.live := by
  have hi := (sinv_reachable hc hr).core
  have key : ∀ w, (w ∈ s.readyQ ∨ w ∈ s.yielded) → ∀ p, IsEdge c.D p w →
      (p ∈ s.droppedRefs ∧ p ∉ s.live) ∧ p ∈ s.yielded := by
    intro w hw p hpw
    have hd := hi.doneDropped p (Or.inl (hi.ready w hw p (mem_parents.mpr hpw)))
    exact ⟨⟨hd, fun hl => hi.liveNotDropped p hl hd⟩, hi.droppedYielded p hd⟩
  induction huv with
  | edge he => exact (key _ hv _ he).1
  | tail _ he ih => exact ih (Or.inr (key _ hv _ he).2)

/-- non-vacuity: on the diamond node 3 gets queued only after 0, 1, 2 were dropped; `0` is a proper ancestor -/
example :
    let s := exRun_I exDiamond_I true [.poll, .drop 0, .poll, .poll, .drop 2, .drop 1, .poll]
    SReachable exDiamond_I true s ∧ 3 ∈ s.yielded ∧ ReachP exDiamond_I.D 0 3 ∧ 0 ∈ s.droppedRefs :=
  ⟨exRun_reachable_I (by decide), by decide,
   ReachP.tail (ReachP.edge ⟨⟨0, 1, .logic⟩, by decide, rfl, rfl⟩) ⟨⟨1, 3, .logic⟩, by decide, rfl, rfl⟩,
   by decide⟩

/-- **C01** (stream form): two functions ordered by the scheduling graph never have live `FnRef`s together -/
theorem stream_no_ancestor_live (hc : GoodCfg c) (hr : SReachable c true s) {u v : Nat}
    (hu : u ∈ s.live) (hv : v ∈ s.live) : ¬ ReachP c.D u v := by
  intro huv
  have hi := (sinv_reachable hc hr).core
  exact (stream_yield_after_ancestors hc hr (Or.inr (hi.liveYielded v hv)) huv).2 hu

/-- non-vacuity: two live refs at once (the unordered nodes 1 and 2 of the diamond) -/
example :
    let s := exRun_I exDiamond_I true [.poll, .drop 0, .poll, .poll]
    SReachable exDiamond_I true s ∧ 1 ∈ s.live ∧ 2 ∈ s.live :=
  ⟨exRun_reachable_I (by decide), by decide, by decide⟩

/-- **C03** (stream form): the done channel never fills, so no `try_send` of a drop is lost -/
theorem stream_channels_never_full (hc : GoodCfg c) (hr : SReachable c true s) :
    s.doneQ.length ≤ c.cap ∧ s.readyQ.length ≤ c.cap ∧
    (∀ f ∈ s.droppedRefs, s.streamDropped = false → f ∈ s.released ∨ f ∈ s.doneQ) := by
  have hi := (sinv_reachable hc hr).core
  have := SCore.cap_pos c
  refine ⟨Nat.le_trans hi.doneLen this, Nat.le_trans hi.readyLen this, ?_⟩
  intro f hf hsd
  exact hi.droppedDone hsd f hf

/-- non-vacuity: both channels non-empty at once -/
example :
    let s := exRun_I exDiamond_I true [.poll, .drop 0, .poll, .poll, .drop 2, .drop 1]
    SReachable exDiamond_I true s ∧ s.doneQ = [2, 1] ∧ s.streamDropped = false ∧ s.droppedRefs = [0, 2, 1] :=
  ⟨exRun_reachable_I (by decide), by decide, by decide, by decide⟩

end FG
