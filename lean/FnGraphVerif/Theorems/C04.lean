/-
  Theorems/C04.lean — liveness of the run protocol: the internal actions always come to rest
  (`settle`), and at rest with nothing in flight the call HAS returned — no deadlock, for every
  graph including the empty one, every API kind, limit, strategy, include flag, failing subset,
  completion order.  Also C03 (clean run hands out everything), C06 (no needless waiting) and
  C10 (any limit still completes).

  All statements hold under `GoodCfg` alone (no `Cfg.ApiOk` needed): the proofs only use the
  sub-invariant `Inv0` (`inv0_reachable`) and the liveness invariant `LInv` (J1–J5,
  `Proofs/ProtoLive.lean`); the termination measure of `settle` is in `Proofs/LiveMeasure.lean`.
-/
import FnGraphVerif.Theorems.RunSafety
import FnGraphVerif.Proofs.LiveQuiet
import FnGraphVerif.Proofs.LiveExample
namespace FG

variable {c : Cfg} {s : PState}

/-- `settle` only performs actions of the transition system -/
theorem settle1_reachable (hr : Reachable c s) {a : Action} {s' : PState}
    (h : settle1 c s = some (a, s')) : Reachable c s' :=
  Reachable.step a hr (settle1_step h)

theorem settle_reachable (hr : Reachable c s) : Reachable c (settle c s) :=
  settleN_reachable _ hr

/- non-vacuity (diamond `0→1→3`, `0→2→3`, limit 2, see `Proofs/LiveExample.lean`): from the initial
   state `settle` really moves — it hands out and invokes the root -/
set_option maxRecDepth 100000 in
example : settle1 (exC_G (some 2)) (init (exC_G (some 2))) ≠ none ∧
    (settle (exC_G (some 2)) (init (exC_G (some 2)))).inflight = [0] ∧
    (settle (exC_G (some 2)) (init (exC_G (some 2)))).invoked = [0] := by decide
example : Reachable (exC_G (some 2)) (settle (exC_G (some 2)) (init (exC_G (some 2)))) := settle_reachable .init

/-- the internal actions terminate: `settle` reaches a quiescent state within its fuel -/
theorem settle_quiescent (hc : GoodCfg c) (hr : Reachable c s) :
    Quiescent c (settle c s) :=
  settleN_quiescent hc _ hr (mu_le c s)

/- non-vacuity: the theorem applied to the diamond; the settled state differs from the initial one
   (so quiescence is not the trivial "nothing to do"), and mid-run (`1`, `2` in flight) likewise -/
example : Quiescent (exC_G (some 2)) (settle (exC_G (some 2)) (init (exC_G (some 2)))) :=
  settle_quiescent (exC_good_G _) .init
set_option maxRecDepth 100000 in
example : ¬ Quiescent (exC_G (some 2)) (init (exC_G (some 2))) ∧ exS1_G.inflight = [2, 1] ∧ exS1_G.result = none := by
  decide

/-- **C04** (deadlock freedom): quiescent and nothing in flight ⇒ the call has returned. -/
theorem deadlock_free (hc : GoodCfg c) (hr : Reachable c s) (hq : Quiescent c s)
    (hi : s.inflight = []) : s.result.isSome = true := by
  have hinv := inv0_reachable hc hr
  have hl := linv_reachable hc hr
  cases hres : s.result with
  | some r => rfl
  | none =>
  exfalso
  obtain ⟨_, ha, hb, hpoll, hd, he⟩ := nextInternal_none (quiescent_iff.mp hq) hres
  have hul : underLimit c s = true := underLimit_nil hi
  -- in both cases below the queuer is still running and the done channel is open and empty
  have key : s.qDone = false → False ∨ (s.sRemaining ≠ 0 ∧ s.failed = [] ∧ s.im.ian = false ∧ s.doneQ = []) := by
    intro hqd
    right
    have hdt : s.doneTxOpen = true := by
      rcases hb with h | h
      · rw [hqd] at h; exact absurd h (by simp)
      · exact h
    have hdq : s.doneQ = [] := by
      rcases ha with h | h
      · rw [hqd] at h; exact absurd h (by simp)
      · exact h
    obtain ⟨h1, h2, _, h4⟩ := hl.txOpen hdt
    refine ⟨h1, h2, ?_, hdq⟩
    cases hian : s.im.ian with
    | false => rfl
    | true =>
      obtain ⟨f, _, hf⟩ := h4 hian
      rw [hi] at hf
      exact absurd hf (by simp)
  cases hsd : s.sDone with
  | true =>
    have hqd : s.qDone = false := by
      cases hq' : s.qDone with
      | false => rfl
      | true => exact absurd ⟨hsd, hq'⟩ he
    rcases key hqd with h | ⟨h1, h2, h3, _⟩
    · exact h
    · rcases hl.sd hsd with hse | hsh
      · rcases hl.ended hse with h | ⟨_, h⟩
        · rw [h3] at h; exact absurd h (by simp)
        · rcases hl.rtx h with h | h
          · rw [hqd] at h; exact absurd h (by simp)
          · exact h1 (hinv.sRem_zero_of_qRem_zero h)
      · exact hl.shortFailed hsh h2
  | false =>
    have hse : s.streamEnded = false := by
      cases h : s.streamEnded with
      | false => rfl
      | true => exact absurd ⟨h, hi, hsd⟩ hd
    have hstuck : step? c s .schedPoll = none ∨ step? c s .schedPoll = some s := by
      rcases hpoll with h | h | h | h
      · rw [hsd] at h; exact absurd h (by simp)
      · rw [hse] at h; exact absurd h (by simp)
      · rw [hul] at h; exact absurd h (by simp)
      · exact h
    obtain ⟨hrq, hrt⟩ := poll_stuck hsd hse hul hstuck
    have hqd : s.qDone = false := by
      cases hq' : s.qDone with
      | false => rfl
      | true => have := hl.qd hq'; rw [hrt] at this; exact absurd this (by simp)
    rcases key hqd with h | ⟨h1, h2, h3, hdq⟩
    · exact h
    · have hdt : s.doneTxOpen = true := by
        rcases hb with h | h
        · rw [hqd] at h; exact absurd h (by simp)
        · exact h
      have hrx : s.readyRxOpen = true := by
        cases h : s.readyRxOpen with
        | true => rfl
        | false =>
          rcases hl.rrx h with h | h
          · rw [hse] at h; exact absurd h (by simp)
          · rw [hsd] at h; exact absurd h (by simp)
      -- every node is released, by induction along the edges
      have hall : ∀ v, v < c.D.n → v ∈ s.released := by
        apply parents_induction_G hc.wf hc.acyclic
        intro v hv hpar
        rcases hl.complete hrx (Or.inl hrt) v hv hpar with h | h | h
        · rw [hrq] at h; exact absurd h (by simp)
        · rcases hinv.handedSplit v h with h | h | h
          · rw [hi] at h; exact absurd h (by simp)
          · rcases hl.sent hdt v h with h | h
            · exact h
            · rw [hdq] at h; exact absurd h (by simp)
          · rw [h2] at h; exact absurd h (by simp)
        · have := hl.dropIan (by rw [h]; rfl)
          rw [h3] at this; exact absurd this (by simp)
      have hsub : List.range c.D.n ⊆ s.released := fun x hx => hall x (List.mem_range.mp hx)
      have hlen := List.Nodup.length_le_of_subset List.nodup_range hsub
      simp only [List.length_range] at hlen
      have hqr := hinv.qRem
      unfold Cfg.n at hqr
      exact h1 (hinv.sRem_zero_of_qRem_zero (by omega))

/- non-vacuity: after `0`, `2`, `1`, `3` have completed the hypotheses hold (reachable, quiescent,
   nothing in flight) and the theorem gives the return; while `1` and `2` are in flight the state is
   quiescent but the call has (rightly) not returned — the hypothesis `inflight = []` is needed -/
set_option maxRecDepth 100000 in
example : exS4_G.result.isSome = true :=
  deadlock_free (exC_good_G _) exS4_reach_G (by decide) (by decide)
set_option maxRecDepth 100000 in
example : Quiescent (exC_G (some 2)) exS1_G ∧ exS1_G.inflight ≠ [] ∧ exS1_G.result.isSome = false := by decide
/- the empty graph returns without any function: both senders are closed by `init` -/
set_option maxRecDepth 100000 in
example : (settle { D := ⟨0, []⟩, counts0 := [] } (init { D := ⟨0, []⟩, counts0 := [] })).result
    = some (.outcome true [] [] []) := by decide

/-- internal actions do not touch the list of successfully ended functions -/
theorem internal_endedOk {a : Action} {s' : PState} (ha : a.internal) (h : step? c s a = some s') :
    s'.endedOk = s.endedOk := by
  cases a with
  | queuerRecv => obtain ⟨_, _, x, rest, _, rfl⟩ := queuerRecv_cases h; rfl
  | queuerEnd => obtain ⟨_, _, _, rfl⟩ := queuerEnd_cases h; rfl
  | schedPoll =>
    obtain ⟨_, _, _, hcase⟩ := schedPoll_cases h
    rcases hcase with ⟨_, rfl⟩ | ⟨_, rfl⟩ | ⟨_, rfl⟩ | ⟨_, f, rest, _, rfl⟩ | ⟨_, f, rest, _, ⟨_, rfl⟩ | ⟨_, rfl⟩⟩ <;> rfl
  | invoke f => obtain ⟨_, _, rfl⟩ := invoke_cases h; rfl
  | finish f ok => exact absurd rfl (ha.2 f ok)
  | interrupt => exact absurd rfl ha.1
  | schedEnd => obtain ⟨_, _, _, rfl⟩ := schedEnd_cases h; rfl
  | ret => obtain ⟨_, _, _, rfl⟩ := ret_cases h; rfl

theorem run_internal_endedOk_G {as : List Action} : ∀ {s s' : PState}, (∀ a ∈ as, a.internal) →
    run c s as = some s' → s'.endedOk = s.endedOk := by
  induction as with
  | nil => intro s s' _ h; simp only [run, Option.some.injEq] at h; rw [h]
  | cons a as ih =>
    intro s s' has h
    simp only [run] at h
    cases hs : step? c s a with
    | none => rw [hs] at h; exact absurd h (by simp)
    | some s1 =>
      rw [hs] at h
      rw [ih (fun b hb => has b (List.mem_cons_of_mem _ hb)) h]
      exact internal_endedOk (has a List.mem_cons_self) hs

theorem run_reachable_G {as : List Action} : ∀ {s s' : PState}, Reachable c s →
    run c s as = some s' → Reachable c s' := by
  induction as with
  | nil => intro s s' hr h; simp only [run, Option.some.injEq] at h; rw [← h]; exact hr
  | cons a as ih =>
    intro s s' hr h
    simp only [run] at h
    cases hs : step? c s a with
    | none => rw [hs] at h; exact absurd h (by simp)
    | some s1 =>
      rw [hs] at h
      exact ih (Reachable.step a hr hs) h

theorem eventually_returns_aux (hc : GoodCfg c) (k : Nat) :
    ∀ {s : PState}, Reachable c s → c.n - s.endedOk.length ≤ k →
    ∃ as s', (∀ a ∈ as, a ≠ .interrupt ∧ ∀ f, a ≠ .finish f false) ∧ run c s as = some s' ∧
      s'.result.isSome = true := by
  induction k with
  | zero =>
    intro s hr hk
    obtain ⟨as, has, hrun⟩ := settleN_run (c := c) (settleFuel c) s
    have hr1 : Reachable c (settle c s) := settle_reachable hr
    have hq1 : Quiescent c (settle c s) := settle_quiescent hc hr
    refine ⟨as, settle c s, fun a ha => ⟨(has a ha).1, fun f => (has a ha).2 f false⟩, hrun, ?_⟩
    cases hi : (settle c s).inflight with
    | nil => exact deadlock_free hc hr1 hq1 hi
    | cons f rest =>
      exfalso
      have hinv1 := inv0_reachable hc hr1
      have hfi : f ∈ (settle c s).inflight := by rw [hi]; simp
      have hne := (hinv1.inflNotEnded f hfi).1
      have hlt : f < c.n := hinv1.bound f (Or.inr (Or.inl (hinv1.inflHanded f hfi)))
      have heo : (settle c s).endedOk = s.endedOk := run_internal_endedOk_G has hrun
      have hnd : (f :: (settle c s).endedOk).Nodup := List.nodup_cons.mpr ⟨hne, hinv1.endedOk_nodup⟩
      have := nodup_bounded_length hnd (n := c.n) (by
        intro x hx
        rcases List.mem_cons.mp hx with rfl | hx
        · exact hlt
        · exact hinv1.endedOk_lt hx)
      simp only [List.length_cons, heo] at this
      omega
  | succ k ih =>
    intro s hr hk
    obtain ⟨as, has, hrun⟩ := settleN_run (c := c) (settleFuel c) s
    have hr1 : Reachable c (settle c s) := settle_reachable hr
    have hq1 : Quiescent c (settle c s) := settle_quiescent hc hr
    have has' : ∀ a ∈ as, a ≠ .interrupt ∧ ∀ f, a ≠ .finish f false :=
      fun a ha => ⟨(has a ha).1, fun f => (has a ha).2 f false⟩
    cases hres : (settle c s).result with
    | some r => exact ⟨as, settle c s, has', hrun, by rw [hres]; rfl⟩
    | none =>
      cases hi : (settle c s).inflight with
      | nil =>
        have := deadlock_free hc hr1 hq1 hi
        rw [hres] at this
        exact absurd this (by simp)
      | cons f rest =>
        have hfi : f ∈ (settle c s).inflight := by rw [hi]; simp
        have hfinv : f ∈ (settle c s).invoked :=
          (nextInternal_none (quiescent_iff.mp hq1) hres).1 f hfi
        have hstep : ∃ s2, step? c (settle c s) (.finish f true) = some s2 := by
          simp [step?, hfi, hfinv]
        obtain ⟨s2, hs2⟩ := hstep
        have hr2 : Reachable c s2 := Reachable.step _ hr1 hs2
        have hinv2 := inv0_reachable hc hr2
        have heo : (settle c s).endedOk = s.endedOk := run_internal_endedOk_G has hrun
        have heo2 : s2.endedOk = s.endedOk ++ [f] := by
          obtain ⟨_, _, rfl⟩ := finishOk_cases hs2
          simp only [heo]
        have hlen := nodup_bounded_length hinv2.endedOk_nodup (n := c.n) (fun x hx => hinv2.endedOk_lt hx)
        rw [heo2] at hlen
        simp only [List.length_append, List.length_cons, List.length_nil] at hlen
        obtain ⟨bs, s3, hbs, hrun3, hres3⟩ := ih hr2 (by rw [heo2]; simp only [List.length_append, List.length_cons, List.length_nil]; omega)
        refine ⟨as ++ (.finish f true :: bs), s3, ?_, ?_, hres3⟩
        · intro a ha
          rcases List.mem_append.mp ha with ha | ha
          · exact has' a ha
          · rcases List.mem_cons.mp ha with rfl | ha
            · exact ⟨by simp, by simp⟩
            · exact hbs a ha
        · rw [run_append_G hrun]
          have hs2' : step? c (settleN c (settleFuel c) s) (.finish f true) = some s2 := hs2
          simp only [run, hs2']
          exact hrun3

/-- **C04 / C10**: from every reachable state, letting the in-flight user futures complete (in any
    order the model picks) and running the internal actions makes the call return — for every limit,
    strategy and failing history so far. -/
theorem eventually_returns (hc : GoodCfg c) (hr : Reachable c s) :
    ∃ as s', (∀ a ∈ as, a ≠ .interrupt ∧ ∀ f, a ≠ .finish f false) ∧ run c s as = some s' ∧
      s'.result.isSome = true :=
  eventually_returns_aux hc _ hr (Nat.le_refl _)

/- non-vacuity: from the mid-run state with `1`, `2` in flight the theorem yields a completing
   schedule; concretely the schedule "finish 2, finish 1, finish 3" (with `settle` in between) returns
   `Finished` with all four functions processed -/
example : ∃ as s', (∀ a ∈ as, a ≠ .interrupt ∧ ∀ f, a ≠ .finish f false) ∧
    run (exC_G (some 2)) exS1_G as = some s' ∧ s'.result.isSome = true :=
  eventually_returns (exC_good_G _) exS1_reach_G
set_option maxRecDepth 100000 in
example : exS4_G.result = some (.outcome true [0, 2, 1, 3] [] []) := by decide

/-- **C03**: a run that returned without an interrupt being received and without a failure handed
    out every function (exactly once, by `handout_nodup`). -/
theorem clean_return_all (hc : GoodCfg c) (hr : Reachable c s) {r : Ret}
    (h : s.result = some r) (hni : s.im.recv = false) (hf : s.failed = []) :
    s.handedOut.Perm (List.range c.n) := by
  have hinv := inv0_reachable hc hr
  have hl := linv_reachable hc hr
  obtain ⟨_, hqd, _⟩ := hinv.ret0 r h
  have hs0 : s.sRemaining = 0 := by
    rcases hl.qDone_pdone hqd with h | h | h
    · exact h
    · exact absurd hf h
    · rw [hni] at h; exact absurd h (by simp)
  apply (List.perm_ext_iff_of_nodup hinv.handedOut_nodup List.nodup_range).mpr
  intro v
  constructor
  · intro hv; exact List.mem_range.mpr (hinv.bound v (Or.inr (Or.inl hv)))
  · intro hv
    exact hinv.endedHanded v (Or.inl (hinv.all_ended hs0 hf (List.mem_range.mp hv)))

/- non-vacuity: the completed diamond run satisfies the hypotheses; its hand-out order is `0,2,1,3` -/
set_option maxRecDepth 100000 in
example : exS4_G.handedOut.Perm (List.range 4) :=
  clean_return_all (exC_good_G _) exS4_reach_G (r := .outcome true [0, 2, 1, 3] [] [])
    (by decide) (by decide) (by decide)
set_option maxRecDepth 100000 in
example : exS4_G.handedOut = [0, 2, 1, 3] := by decide

/-- **C06** (no needless waiting): unlimited, uninterrupted, no failure: at every quiescent point
    every function whose predecessors in the scheduling graph have all returned has been handed out
    (and invoked). -/
theorem maximal_progress (hc : GoodCfg c) (hr : Reachable c s) (hq : Quiescent c s)
    (hseq : c.sequential = false) (hlim : c.limit = none ∨ c.limit = some 0)
    (hni : s.im.sent = false ∧ s.im.recv = false) (hf : s.failed = [])
    {v : Nat} (hv : v < c.n) (hp : ∀ p ∈ parents c.D v, p ∈ s.endedOk) :
    v ∈ s.handedOut ∧ v ∈ s.invoked := by
  have hinv := inv0_reachable hc hr
  have hl := linv_reachable hc hr
  by_cases hs0 : s.sRemaining = 0
  · have := hinv.all_ended hs0 hf hv
    exact ⟨hinv.endedHanded v (Or.inl this), hinv.endedInvoked v (Or.inl this)⟩
  · have hnp : ¬ PDone s := by
      intro h
      rcases h with h | h | h
      · exact hs0 h
      · exact h hf
      · rw [hni.2] at h; exact absurd h (by simp)
    have hdt : s.doneTxOpen = true := by
      cases h : s.doneTxOpen with
      | true => rfl
      | false => exact absurd (hl.whyClosed h) hnp
    have hqd : s.qDone = false := by
      cases h : s.qDone with
      | false => rfl
      | true => exact absurd (hl.qDone_pdone h) hnp
    have hrt : s.readyTxOpen = true := by
      cases h : s.readyTxOpen with
      | true => rfl
      | false => exact absurd (hl.rtx_pdone hinv h) hnp
    have hse : s.streamEnded = false := by
      cases h : s.streamEnded with
      | false => rfl
      | true => exact absurd (hl.ended_pdone hinv h) hnp
    have hsd : s.sDone = false := by
      cases h : s.sDone with
      | false => rfl
      | true => exact absurd (hl.sDone_pdone hinv h) hnp
    have hres : s.result = none := by
      cases h : s.result with
      | none => rfl
      | some r => have := (hinv.ret0 r h).1; rw [hsd] at this; exact absurd this (by simp)
    have hrx : s.readyRxOpen = true := by
      cases h : s.readyRxOpen with
      | true => rfl
      | false =>
        rcases hl.rrx h with h | h
        · rw [hse] at h; exact absurd h (by simp)
        · rw [hsd] at h; exact absurd h (by simp)
    obtain ⟨hallinv, ha, _, hpoll, _, _⟩ := nextInternal_none (quiescent_iff.mp hq) hres
    have hul : underLimit c s = true := underLimit_unlimited hseq hlim
    have hdq : s.doneQ = [] := by
      rcases ha with h | h
      · rw [hqd] at h; exact absurd h (by simp)
      · exact h
    have hstuck : step? c s .schedPoll = none ∨ step? c s .schedPoll = some s := by
      rcases hpoll with h | h | h | h
      · rw [hsd] at h; exact absurd h (by simp)
      · rw [hse] at h; exact absurd h (by simp)
      · rw [hul] at h; exact absurd h (by simp)
      · exact h
    obtain ⟨hrq, _⟩ := poll_stuck hsd hse hul hstuck
    have hpar : ∀ p ∈ parents c.D v, p ∈ s.released := by
      intro p hpp
      rcases hl.sent hdt p (hp p hpp) with h | h
      · exact h
      · rw [hdq] at h; exact absurd h (by simp)
    have hho : v ∈ s.handedOut := by
      rcases hl.complete hrx (Or.inl hrt) v hv hpar with h | h | h
      · rw [hrq] at h; exact absurd h (by simp)
      · exact h
      · have := hl.imOk.2 (hl.dropIan (by rw [h]; rfl))
        rw [hni.2] at this; exact absurd this (by simp)
    refine ⟨hho, ?_⟩
    rcases hinv.handedSplit v hho with h | h | h
    · exact hallinv v h
    · exact hinv.endedInvoked v (Or.inl h)
    · exact hinv.endedInvoked v (Or.inr h)

/- non-vacuity (unlimited diamond, `0` and `1` returned, `2` still running): node `2`'s only parent has
   returned, so it has been handed out and invoked; node `3` (parent `2` still running) has not -/
set_option maxRecDepth 100000 in
example : 2 ∈ exU2_G.handedOut ∧ 2 ∈ exU2_G.invoked :=
  maximal_progress (exC_good_G _) exU2_reach_G (by decide) rfl (Or.inl rfl) (by decide) (by decide)
    (v := 2) (by decide) (by decide)
set_option maxRecDepth 100000 in
example : exU2_G.endedOk = [0, 1] ∧ exU2_G.inflight = [2] ∧ 3 ∉ exU2_G.handedOut := by decide

end FG
