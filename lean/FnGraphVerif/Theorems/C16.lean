/-
  Theorems/C16.lean — the builder rejects exactly the edges that would close a cycle.
-/
import FnGraphVerif.Proofs.BuilderInv
import FnGraphVerif.Proofs.C16Update
namespace FG

/-- the three invariants survive every `update_edge` call, whatever its outcome -/
theorem updateEdge_good {g : Dag} (hg : GoodG g) (a c : Nat) (k : Kind) : GoodG (updateEdge g a c k).1 :=
  updateEdge_goodG hg a c k

-- non-vacuity: `exG_B` is `0 → 1 → 2` on three nodes (`GoodG exG_B` by `exG_good_B`)
example : updateEdge exG_B 0 2 .logic =
    (⟨3, [⟨0, 1, .logic⟩, ⟨1, 2, .contains⟩, ⟨0, 2, .logic⟩]⟩, .ok 2) := by decide
example : GoodG (⟨3, [⟨0, 1, .logic⟩, ⟨1, 2, .contains⟩, ⟨0, 2, .logic⟩]⟩ : Dag) :=
  updateEdge_good exG_good_B 0 2 .logic
example : GoodG (⟨3, [⟨0, 1, .data⟩, ⟨1, 2, .contains⟩]⟩ : Dag) := updateEdge_good exG_good_B 0 1 .data

/-- **C16**: `WouldCycle` exactly when the target already reaches the source (self-edges included) -/
theorem updateEdge_wouldCycle_iff {g : Dag} (hg : GoodG g) {a c : Nat} (ha : a < g.n) (hcn : c < g.n) (k : Kind) :
    (updateEdge g a c k).2 = .wouldCycle ↔ Reach g c a := by
  rcases updateEdge_cases g a c k with ⟨hb, _⟩ | ⟨_, _, i, hf, h⟩ | ⟨_, _, _, hp, h⟩ | ⟨_, _, _, hp, h⟩
  · omega
  · rw [h]
    constructor
    · intro h'; cases h'
    · intro hr
      exact absurd (ReachP.head (findEdge_isEdge hf) hr) (hg.acyclic a)
  · rw [h]
    exact ⟨fun _ => (hasPath_iff_reach hg.wf hcn a).mp hp, fun _ => rfl⟩
  · rw [h]
    constructor
    · intro h'; cases h'
    · intro hr; exact absurd hr ((hasPath_false_iff hg.wf hcn a).mp hp)

example : (updateEdge exG_B 2 0 .logic).2 = .wouldCycle := by decide
example : (updateEdge exG_B 1 1 .logic).2 = .wouldCycle := by decide
example : Reach exG_B 0 2 :=
  (updateEdge_wouldCycle_iff exG_good_B (a := 2) (c := 0) (by decide) (by decide) .logic).mp (by decide)
example : ¬ Reach exG_B 2 0 := fun h =>
  absurd ((updateEdge_wouldCycle_iff exG_good_B (a := 0) (c := 2) (by decide) (by decide) .logic).mpr h) (by decide)

/-- … which is exactly when adding the edge would close a cycle with the accepted edges -/
theorem wouldCycle_iff_closes_cycle {g : Dag} (hg : GoodG g) {a c : Nat} (ha : a < g.n) (hcn : c < g.n) (k : Kind) :
    (updateEdge g a c k).2 = .wouldCycle ↔ ¬ Acyclic (addE g ⟨a, c, k⟩) := by
  rw [updateEdge_wouldCycle_iff hg ha hcn k]
  constructor
  · intro hr; exact cyclic_addE (e := ⟨a, c, k⟩) hr
  · intro hn
    apply Classical.byContradiction
    intro hr
    exact hn (acyclic_addE (e := ⟨a, c, k⟩) hg.acyclic hr)

example : ¬ Acyclic (addE exG_B ⟨2, 0, .logic⟩) :=
  (wouldCycle_iff_closes_cycle exG_good_B (a := 2) (c := 0) (by decide) (by decide) .logic).mp (by decide)
example : Acyclic (addE exG_B ⟨0, 2, .logic⟩) :=
  Classical.not_not.mp (fun h =>
    absurd ((wouldCycle_iff_closes_cycle exG_good_B (a := 0) (c := 2) (by decide) (by decide) .logic).mpr h) (by decide))

/-- a rejected call leaves the accepted edges intact -/
theorem updateEdge_wouldCycle_unchanged {g : Dag} {a c : Nat} {k : Kind}
    (h : (updateEdge g a c k).2 = .wouldCycle) : (updateEdge g a c k).1 = g := by
  rcases updateEdge_cases g a c k with ⟨_, hu⟩ | ⟨_, _, i, _, hu⟩ | ⟨_, _, _, _, hu⟩ | ⟨_, _, _, _, hu⟩
  · rw [hu]
  · rw [hu] at h; cases h
  · rw [hu]
  · rw [hu] at h; cases h

example : (updateEdge exG_B 2 0 .contains).1 = exG_B :=
  updateEdge_wouldCycle_unchanged (by decide)

/-- an accepted call upserts: the returned index holds `a → c` with the given kind (the most recent
    kind wins), every other edge is untouched, and at most one edge is appended -/
theorem updateEdge_ok_upsert {g : Dag} (hg : GoodG g) {a c i : Nat} {k : Kind}
    (h : (updateEdge g a c k).2 = .ok i) :
    (updateEdge g a c k).1.edges[i]? = some ⟨a, c, k⟩ ∧
    (∀ j, j ≠ i → j < g.edges.length → (updateEdge g a c k).1.edges[j]? = g.edges[j]?) ∧
    ((updateEdge g a c k).1.edges.length = g.edges.length ∨
     ((updateEdge g a c k).1.edges.length = g.edges.length + 1 ∧ i = g.edges.length)) ∧
    (updateEdge g a c k).1.n = g.n := by
  have _ := hg  -- (not needed: the upsert facts hold for every graph)
  rcases updateEdge_cases g a c k with ⟨_, hu⟩ | ⟨_, _, i', hf, hu⟩ | ⟨_, _, _, _, hu⟩ | ⟨_, _, _, _, hu⟩
  · rw [hu] at h; cases h
  · rw [hu] at h ⊢
    cases h
    obtain ⟨e0, he0, _, _⟩ := findEdge_some hf
    have hlt : i < g.edges.length := (List.getElem?_eq_some_iff.mp he0).1
    refine ⟨?_, ?_, Or.inl ?_, rfl⟩
    · simp [hlt]
    · intro j hj _
      simp only
      rw [List.getElem?_set_ne (Ne.symm hj)]
    · simp
  · rw [hu] at h; cases h
  · rw [hu] at h ⊢
    cases h
    refine ⟨?_, ?_, Or.inr ⟨?_, rfl⟩, rfl⟩
    · simp [addE]
    · intro j _ hj
      simp only [addE]
      rw [List.getElem?_append_left hj]
    · simp [addE]

-- overwrite in place (the most recent kind wins) and append
example : updateEdge exG_B 0 1 .contains = (⟨3, [⟨0, 1, .contains⟩, ⟨1, 2, .contains⟩]⟩, .ok 0) := by decide
example : (updateEdge exG_B 0 1 .contains).1.edges[0]? = some ⟨0, 1, .contains⟩ :=
  (updateEdge_ok_upsert exG_good_B (i := 0) (by decide)).1
example : (updateEdge exG_B 0 2 .logic).1.edges[2]? = some ⟨0, 2, .logic⟩ :=
  (updateEdge_ok_upsert exG_good_B (i := 2) (by decide)).1

/-- batch forms: a left fold of single calls that stops at the first `WouldCycle`, keeping what was
    accepted before it -/
theorem applyEdges_cons (k : Kind) (g : Dag) (a c : Nat) (ps : List (Nat × Nat)) (acc : List Nat) :
    applyEdges k g ((a, c) :: ps) acc =
      match updateEdge g a c k with
      | (g', .ok i) => applyEdges k g' ps (acc ++ [i])
      | (g', r) => (g', r) := by
  rfl

-- the batch stops at the first `WouldCycle` (`2 → 0`), keeps the accepted `0 → 2`, never tries `2 → 1`
example : applyEdges .logic exG_B [(0, 2), (2, 0), (2, 1)] [] =
    (⟨3, [⟨0, 1, .logic⟩, ⟨1, 2, .contains⟩, ⟨0, 2, .logic⟩]⟩, .wouldCycle) := by decide
example : applyEdges .logic exG_B [(0, 2), (0, 1)] [] =
    (⟨3, [⟨0, 1, .logic⟩, ⟨1, 2, .contains⟩, ⟨0, 2, .logic⟩]⟩, .oks [2, 0]) := by decide

theorem applyEdges_good {g : Dag} (hg : GoodG g) (k : Kind) (ps : List (Nat × Nat)) (acc : List Nat) :
    GoodG (applyEdges k g ps acc).1 :=
  applyEdges_goodG hg k ps acc

example : GoodG (⟨3, [⟨0, 1, .logic⟩, ⟨1, 2, .contains⟩, ⟨0, 2, .logic⟩]⟩ : Dag) :=
  applyEdges_good exG_good_B .logic [(0, 2), (2, 0), (2, 1)] []

/-- **C16**: every builder state is well-formed, has at most one edge per ordered pair, is acyclic,
    and holds only logic/contains edges -/
theorem breach_good {b : BState} (h : BReach b) :
    GoodG b.graph ∧ ∀ e ∈ b.edges, e.kind ≠ .data :=
  breach_goodG h

-- `exB_B` is built by three `add_fn`, `add_logic_edge(0,1)`, `add_contains_edge(1,2)`
example : BReach exB_B := exB_reach_B
example : exB_B.graph = ⟨3, [⟨0, 1, .logic⟩, ⟨1, 2, .contains⟩]⟩ := by decide
example : GoodG exB_B.graph ∧ ∀ e ∈ exB_B.edges, e.kind ≠ .data := breach_good exB_reach_B
-- a rejected batch still yields a reachable (hence good) state
example : BReach (applyOp exB_B (.edges .logic [(0, 2), (2, 0)])).1 := BReach.step _ rfl exB_reach_B
example : (applyOp exB_B (.edges .logic [(0, 2), (2, 0)])).2 = .wouldCycle := by decide

/-- at most one edge per ordered pair, stated on indices -/
theorem breach_pairs_unique {b : BState} (h : BReach b) {i j : Nat} {e1 e2 : Edge}
    (h1 : b.edges[i]? = some e1) (h2 : b.edges[j]? = some e2) (hs : e1.src = e2.src) (ht : e1.tgt = e2.tgt) :
    i = j :=
  (simple_iff_pairsUniq b.graph).mp (breach_good h).1.simple i j e1 e2 h1 h2 hs ht

-- the hypotheses are satisfiable (`i = j = 1`), and the statement has content: a list with a
-- repeated pair is not the edge list of any reachable builder state
example : exB_B.edges[1]? = some ⟨1, 2, .contains⟩ := by decide
example : ¬ BReach ⟨[⟨[], [], 0⟩, ⟨[], [], 0⟩], [⟨0, 1, .logic⟩, ⟨0, 1, .contains⟩]⟩ := fun h =>
  absurd (breach_pairs_unique h (i := 0) (j := 1) rfl rfl rfl rfl) (by decide)

end FG
