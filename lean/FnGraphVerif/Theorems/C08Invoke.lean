/-
  Theorems/C08Invoke.lean — additions around interruption (C08) and the outcome (C09).

  A. hand-outs versus closure invocations after an interrupt (DESIGN 7.4): definitions
     `invokesAfterIntr`, `pendingAtIntr`, `pendingInvoke` are in `Proofs/NInvoke.lean`;
     `invokes_after_interrupt_le` (every configuration, no `GoodCfg` needed), when
     `pendingAtIntr = 0`, and the sequential (`fold*`) case.
  B. `started_all_reported`: started functions are completed and reported as processed.
  C. `interrupt_only_removes`: `NonInterruptible` / `IgnoreInterruptions` schedules with and
     without their `interrupt` actions.
-/
import FnGraphVerif.Proofs.NInvoke
import FnGraphVerif.Proofs.NSeq
import FnGraphVerif.Proofs.NIntrRemove
import FnGraphVerif.Theorems.RunSafety
namespace FG

/-! ## A. invocations after an interrupt -/

/-- **C08 / DESIGN 7.4**: every schedule, every interrupt point: the closures invoked after the
    signal are at most the `intrBound` functions handed out after it plus the functions that were
    handed out but not yet invoked when the signal was sent. -/
theorem invokes_after_interrupt_le (c : Cfg) (hst : c.strat = .finish ∨ ∃ k, c.strat = .pollN k)
    (as : List Action) :
    invokesAfterIntr c (init c) false as ≤ intrBound c.strat c.incl + pendingAtIntr c (init c) as := by
  have h1 := invokes_le_handouts c as (init c)
  have h2 := handouts_after_interrupt_le c hst as
  omega

/-- the finer form: invocations after the signal ≤ hand-outs after the signal + pending at the signal
    (any strategy) -/
theorem invokes_after_interrupt_le_handouts (c : Cfg) (as : List Action) :
    invokesAfterIntr c (init c) false as ≤
      handoutsAfterIntr c (init c) false as + pendingAtIntr c (init c) as :=
  invokes_le_handouts c as (init c)

/-- `invokesAfterIntr` counts the growth of `invoked` after the signal (the style of
    `handoutsAfterIntr`) -/
theorem invokesAfterIntr_eq_growth (c : Cfg) (as : List Action) :
    invokesAfterIntr c (init c) false as = invokedGrowthAfterIntr c (init c) false as :=
  (invokedGrowth_eq c as (init c) false).symm

/-- non-vacuity, and the bound is attained by a concurrent run: three roots are handed out, the
    ready stream is `Pending`, the signal arrives (3 pending), function 0 completes and releases 3,
    which `FinishCurrent` still hands out as `Interrupted(Some 3)`: 4 = 1 + 3 invocations. -/
def exTrace_N : List Action :=
  [.schedPoll, .schedPoll, .schedPoll, .schedPoll, .interrupt, .invoke 0, .finish 0 true,
   .queuerRecv, .schedPoll, .invoke 3, .invoke 1, .invoke 2]

example : (run (exWide_H .finish true) (init (exWide_H .finish true)) exTrace_N).map
    (fun s => (s.handedOut, s.invoked)) = some ([2, 1, 0, 3], [0, 3, 1, 2]) := by decide
example : invokesAfterIntr (exWide_H .finish true) (init (exWide_H .finish true)) false exTrace_N = 4
    ∧ pendingAtIntr (exWide_H .finish true) (init (exWide_H .finish true)) exTrace_N = 3
    ∧ intrBound (exWide_H .finish true).strat (exWide_H .finish true).incl = 1 := by decide
example : invokesAfterIntr (exWide_H .finish true) (init (exWide_H .finish true)) false exTrace_N ≤
    intrBound (exWide_H .finish true).strat (exWide_H .finish true).incl +
      pendingAtIntr (exWide_H .finish true) (init (exWide_H .finish true)) exTrace_N :=
  invokes_after_interrupt_le _ (Or.inl rfl) _

/-! ### when nothing is pending at the interrupt -/

/-- `pendingAtIntr` is the number of handed-out, not yet invoked functions of the state in which
    the first `interrupt` happens -/
theorem pendingAtIntr_at (c : Cfg) (pre rest : List Action) (s : PState)
    (hpre : ∀ a ∈ pre, a ≠ Action.interrupt) (hr : run c (init c) pre = some s) :
    pendingAtIntr c (init c) (pre ++ .interrupt :: rest) = pendingInvoke s :=
  pendingAtIntr_eq c pre rest (init c) s hpre hr

/-- under `GoodCfg` the pending functions are exactly the handed-out, not yet invoked ones
    (`pendingInvoke` is defined through `inflight`) -/
theorem pendingInvoke_eq_handedOut {c : Cfg} {s : PState} (hc : GoodCfg c) (hr : Reachable c s) :
    pendingInvoke s = (s.handedOut.filter (fun f => decide (f ∉ s.invoked))).length := by
  have hinv := inv0_reachable hc hr
  have hhn : s.handedOut.Nodup := by
    have := (List.nodup_append.mp hinv.queueNodup).1
    exact (List.nodup_append.mp this).2.1
  unfold pendingInvoke
  apply List.Perm.length_eq
  rw [List.perm_ext_iff_of_nodup (hinv.inflNodup.filter _) (hhn.filter _)]
  intro f
  simp only [List.mem_filter, decide_eq_true_eq]
  constructor
  · rintro ⟨h1, h2⟩
    exact ⟨hinv.inflHanded f h1, h2⟩
  · rintro ⟨h1, h2⟩
    rcases hinv.handedSplit f h1 with h | h
    · exact ⟨h, h2⟩
    · exact absurd (hinv.endedInvoked f h) h2

/-- **nothing pending** when the state at the first interrupt is quiescent for `invoke` -/
theorem pendingAtIntr_eq_zero (c : Cfg) (pre rest : List Action) (s : PState)
    (hpre : ∀ a ∈ pre, a ≠ Action.interrupt) (hr : run c (init c) pre = some s)
    (hq : ∀ f ∈ s.inflight, f ∈ s.invoked) :
    pendingAtIntr c (init c) (pre ++ .interrupt :: rest) = 0 := by
  rw [pendingAtIntr_at c pre rest s hpre hr]
  exact (pendingInvoke_eq_zero_iff s).mpr hq

/-- the same without naming the prefix: whichever state the first interrupt finds -/
theorem pendingAtIntr_eq_zero' (c : Cfg) (as : List Action)
    (hq : ∀ pre rest s, as = pre ++ .interrupt :: rest → (∀ a ∈ pre, a ≠ Action.interrupt) →
      run c (init c) pre = some s → ∀ f ∈ s.inflight, f ∈ s.invoked) :
    pendingAtIntr c (init c) as = 0 := by
  by_cases h : Action.interrupt ∈ as
  · obtain ⟨pre, rest, rfl, hpre⟩ := List.eq_append_cons_of_mem h
    have hpre' : ∀ a ∈ pre, a ≠ Action.interrupt := fun a ha he => hpre (he ▸ ha)
    cases hr : run c (init c) pre with
    | some s => exact pendingAtIntr_eq_zero c pre rest s hpre' hr (hq pre rest s rfl hpre' hr)
    | none =>
      -- the run blocks before the interrupt: `pendingAtIntr` is 0 by definition
      clear hq h hpre
      generalize init c = s0 at hr ⊢
      induction pre generalizing s0 with
      | nil => simp [run] at hr
      | cons a pre ih =>
        unfold run at hr
        simp only [List.cons_append, pendingAtIntr]
        cases hs : step? c s0 a with
        | none => rfl
        | some s1 =>
          simp only [hs] at hr
          have ha : a ≠ .interrupt := hpre' a (by simp)
          simp only [ha, if_false]
          exact ih (fun b hb => hpre' b (by simp [hb])) s1 hr
  · exact pendingAtIntr_no_interrupt c as (init c) (fun a ha he => h (he ▸ ha))

/-- a `Quiescent` state of a call that has not returned is quiescent for `invoke` -/
theorem quiescent_invoke_quiet {c : Cfg} {s : PState} (hq : Quiescent c s) (hres : s.result = none) :
    ∀ f ∈ s.inflight, f ∈ s.invoked := by
  cases hfind : s.inflight.find? (fun f => decide (f ∉ s.invoked)) with
  | none =>
    intro f hf
    have := List.find?_eq_none.mp hfind f hf
    simpa using this
  | some g =>
    exfalso
    have hg1 : g ∈ s.inflight := List.mem_of_find?_eq_some hfind
    have hg2 : g ∉ s.invoked := by simpa using List.find?_some hfind
    have hn : nextInternal c s = some (.invoke g) := by
      unfold nextInternal
      rw [hres]
      simp only [Option.isSome_none, Bool.false_eq_true, if_false]
      rw [hfind]
    have hstep : step? c s (.invoke g) = some { s with invoked := s.invoked ++ [g] } := by
      simp [step?, hg1, hg2]
    unfold Quiescent settle1 at hq
    rw [hn] at hq
    simp only [hstep] at hq
    cases hq

/-- … and so is every `Quiescent` reachable state of a real API configuration (after the return
    nothing is in flight) -/
theorem quiescent_invoke_quiet_reachable {c : Cfg} {s : PState} (hc : GoodCfg c) (hapi : c.ApiOk)
    (hr : Reachable c s) (hq : Quiescent c s) : ∀ f ∈ s.inflight, f ∈ s.invoked := by
  cases hres : s.result with
  | none => exact quiescent_invoke_quiet hq hres
  | some r =>
    have := return_no_inflight hc hapi hr (by rw [hres]; rfl)
    intro f hf; rw [this] at hf; cases hf

/-- the side condition is needed: the non-API configuration `cxCfg_F` (short-circuiting, not
    sequential) returns while function 0 is handed out and not invoked; that state is `Quiescent` -/
example : (run cxCfg_F (init cxCfg_F)
    [.schedPoll, .schedPoll, .invoke 1, .finish 1 false, .queuerEnd, .ret]).map
      (fun s => (decide (Quiescent cxCfg_F s), pendingInvoke s)) = some (true, 1) := by decide

/-- **nothing pending** when the first interrupt finds a `Quiescent` state (the single-task
    executor of `Model/Settle.lean` invokes a closure right after its hand-out) -/
theorem pendingAtIntr_eq_zero_of_quiescent {c : Cfg} (hc : GoodCfg c) (hapi : c.ApiOk)
    (pre rest : List Action) (s : PState) (hpre : ∀ a ∈ pre, a ≠ Action.interrupt)
    (hr : run c (init c) pre = some s) (hq : Quiescent c s) :
    pendingAtIntr c (init c) (pre ++ .interrupt :: rest) = 0 :=
  pendingAtIntr_eq_zero c pre rest s hpre hr
    (quiescent_invoke_quiet_reachable hc hapi (reachable_of_run Reachable.init pre hr) hq)

/-- without `GoodCfg` / `ApiOk`, for a call that has not returned -/
theorem pendingAtIntr_eq_zero_of_quiescent' (c : Cfg)
    (pre rest : List Action) (s : PState) (hpre : ∀ a ∈ pre, a ≠ Action.interrupt)
    (hr : run c (init c) pre = some s) (hq : Quiescent c s) (hres : s.result = none) :
    pendingAtIntr c (init c) (pre ++ .interrupt :: rest) = 0 :=
  pendingAtIntr_eq_zero c pre rest s hpre hr (quiescent_invoke_quiet hq hres)

/-- then the bound of `handouts_after_interrupt_le` carries over to invocations -/
theorem invokes_after_interrupt_le_of_quiet (c : Cfg)
    (hst : c.strat = .finish ∨ ∃ k, c.strat = .pollN k) (pre rest : List Action) (s : PState)
    (hpre : ∀ a ∈ pre, a ≠ Action.interrupt) (hr : run c (init c) pre = some s)
    (hq : ∀ f ∈ s.inflight, f ∈ s.invoked) :
    invokesAfterIntr c (init c) false (pre ++ .interrupt :: rest) ≤ intrBound c.strat c.incl := by
  have h1 := invokes_after_interrupt_le c hst (pre ++ .interrupt :: rest)
  rw [pendingAtIntr_eq_zero c pre rest s hpre hr hq] at h1
  exact h1

/-- non-vacuity: the chain `0 → 1 → 2`; the signal finds a quiescent state (function 0 invoked,
    ready stream `Pending`); exactly the one `Interrupted(Some 1)` function is invoked afterwards -/
example : (run (exChain_H .finish true) (init (exChain_H .finish true))
    [.schedPoll, .invoke 0, .schedPoll]).map (fun s => decide (Quiescent (exChain_H .finish true) s))
      = some true := by decide
example : pendingAtIntr (exChain_H .finish true) (init (exChain_H .finish true))
    ([.schedPoll, .invoke 0, .schedPoll] ++ .interrupt ::
      [.finish 0 true, .queuerRecv, .schedPoll, .invoke 1, .finish 1 true, .queuerRecv, .schedPoll]) = 0
    ∧ invokesAfterIntr (exChain_H .finish true) (init (exChain_H .finish true)) false
    ([.schedPoll, .invoke 0, .schedPoll] ++ .interrupt ::
      [.finish 0 true, .queuerRecv, .schedPoll, .invoke 1, .finish 1 true, .queuerRecv, .schedPoll]) = 1 := by
  decide

/-! ### the sequential case (`fold*`, `try_fold*`)

  What is true OF THE MODEL: `interrupt` may be scheduled between the `schedPoll` that hands a
  function out and its `invoke`, so `pendingAtIntr` can be 1 (never more).  In the crate the
  hand-out and the closure call are one step of the `fold` future; the point where the signal
  can be *received* is a poll of the interruptible ready stream, i.e. a `schedPoll`, and there
  nothing is pending (`seq_no_pending_at_poll`, `seq_no_pending_at_receive`).
  Tightest bounds, all attained (examples below):
  * `PollNextN(k+1)`:  `invokesAfterIntr ≤ (k+1) + pendingAtIntr ≤ k + 2`;
  * `FinishCurrent` / `PollNextN(0)`:  `handoutsAfterIntr + pendingAtIntr ≤ 1`, hence
    `invokesAfterIntr ≤ max intrBound pendingAtIntr ≤ 1` — a pending function and an
    `Interrupted(Some _)` hand-out exclude each other. -/

/-- a sequential run never has more than one handed-out-uninvoked function (no `GoodCfg` needed) -/
theorem seq_pending_le_one {c : Cfg} {s : PState} (hseq : c.sequential = true) (hr : Reachable c s) :
    pendingInvoke s ≤ 1 ∧ s.inflight.length ≤ 1 :=
  ⟨(seqI_reachable hseq hr).pending_le_one, (seqI_reachable hseq hr).len⟩

theorem seq_pendingAtIntr_le_one (c : Cfg) (hseq : c.sequential = true) (as : List Action) :
    pendingAtIntr c (init c) as ≤ 1 :=
  pendingAtIntr_le_of_inv c SeqI 1 (fun _ _ _ hi h => seqI_step hseq hi h)
    (fun _ hi => hi.pending_le_one) as (init c) (seqI_init c)

/-- sequential, any interrupting strategy -/
theorem seq_invokes_after_interrupt_le (c : Cfg) (hseq : c.sequential = true)
    (hst : c.strat = .finish ∨ ∃ k, c.strat = .pollN k) (as : List Action) :
    invokesAfterIntr c (init c) false as ≤ intrBound c.strat c.incl + 1 := by
  have h1 := invokes_after_interrupt_le c hst as
  have h2 := seq_pendingAtIntr_le_one c hseq as
  omega

/-- sequential `FinishCurrent` / `PollNextN(0)`: a function pending at the signal and a hand-out
    after the signal exclude each other; at most ONE closure is invoked after the signal, and none
    beyond the pending one when `interrupted_next_item_include = false` -/
theorem seq_finish_invokes_after_interrupt_le (c : Cfg) (hseq : c.sequential = true)
    (hst : c.strat = .finish ∨ c.strat = .pollN 0) (as : List Action) :
    handoutsAfterIntr c (init c) false as + pendingAtIntr c (init c) as ≤ 1 ∧
    invokesAfterIntr c (init c) false as ≤ max (intrBound c.strat c.incl) (pendingAtIntr c (init c) as) ∧
    invokesAfterIntr c (init c) false as ≤ 1 := by
  have hst' : c.strat = .finish ∨ ∃ k, c.strat = .pollN k := by
    rcases hst with h | h
    · exact Or.inl h
    · exact Or.inr ⟨0, h⟩
  have h1 := invokes_le_handouts c as (init c)
  have h2 := handouts_after_interrupt_le c hst' as
  have h3 := seq_pendingAtIntr_le_one c hseq as
  have h4 := seq_pending_or_handouts c hseq hst as (init c) ⟨rfl, rfl, rfl, rfl⟩ (seqI_init c)
  have h5 : intrBound c.strat c.incl ≤ 1 := by
    rcases hst with h | h <;> rw [h] <;> simp only [intrBound] <;> split <;> omega
  refine ⟨?_, ?_, ?_⟩
  · rcases h4 with h | h <;> omega
  · rcases h4 with h | h <;> omega
  · rcases h4 with h | h <;> omega

/-- a sequential scheduler polls the ready stream only when nothing is in flight: at every point
    where the signal can be received nothing is pending -/
theorem seq_no_pending_at_poll {c : Cfg} {s s' : PState} (hseq : c.sequential = true)
    (h : step? c s .schedPoll = some s') : s.inflight = [] ∧ pendingInvoke s = 0 := by
  have := seq_poll_inflight_nil hseq h
  exact ⟨this, by rw [pendingInvoke_eq, this]; rfl⟩

/-- the step that RECEIVES the signal (`interrupt_signal_received` becomes `Some`) is a `schedPoll` … -/
theorem receive_is_poll {c : Cfg} {s s' : PState} {a : Action} (h : step? c s a = some s')
    (h0 : s.im.recv = false) (h1 : s'.im.recv = true) : a = .schedPoll := by
  by_cases ha : a = .interrupt
  · subst ha
    obtain ⟨e1, _, _, _⟩ := step_interrupt h
    rw [e1] at h1
    simp only [h0] at h1
    cases h1
  · by_cases h2 : a = .schedPoll
    · exact h2
    · obtain ⟨e1, _, _, _⟩ := step_other h ha h2
      rw [e1, h0] at h1
      cases h1

/-- … so in a sequential run nothing is pending when the signal is received -/
theorem seq_no_pending_at_receive {c : Cfg} {s s' : PState} {a : Action} (hseq : c.sequential = true)
    (h : step? c s a = some s') (h0 : s.im.recv = false) (h1 : s'.im.recv = true) :
    s.inflight = [] ∧ pendingInvoke s = 0 := by
  have ha := receive_is_poll h h0 h1
  subst ha
  exact seq_no_pending_at_poll hseq h

/-- sequential variants of the example configurations -/
def exSeqWide_N (st : Strat) (incl : Bool) : Cfg := { exWide_H st incl with sequential := true }
def exSeqChain_N (st : Strat) (incl : Bool) : Cfg := { exChain_H st incl with sequential := true }

/-- the model does let `interrupt` fall between hand-out and invocation: `pendingAtIntr = 1`;
    `PollNextN(1)` then attains `intrBound + 1 = 2` invocations after the signal -/
def exSeqTrace_N : List Action :=
  [.schedPoll, .interrupt, .invoke 2, .finish 2 true, .schedPoll, .invoke 1, .finish 1 true,
   .schedPoll, .schedPoll]

example : (run (exSeqWide_N (.pollN 1) true) (init (exSeqWide_N (.pollN 1) true)) exSeqTrace_N).map
    (fun s => (s.handedOut, s.invoked, s.streamEnded)) = some ([2, 1], [2, 1], true) := by decide
example : pendingAtIntr (exSeqWide_N (.pollN 1) true) (init (exSeqWide_N (.pollN 1) true)) exSeqTrace_N = 1
    ∧ invokesAfterIntr (exSeqWide_N (.pollN 1) true) (init (exSeqWide_N (.pollN 1) true)) false
        exSeqTrace_N = 2
    ∧ intrBound (.pollN 1) true = 1 := by decide

/-- sequential `FinishCurrent`: with a function pending at the signal the next poll answers
    `Interrupted(None)`: one invocation after the signal (the pending one), no hand-out … -/
example : pendingAtIntr (exSeqWide_N .finish true) (init (exSeqWide_N .finish true))
      [.schedPoll, .interrupt, .invoke 2, .finish 2 true, .schedPoll, .schedPoll] = 1
    ∧ invokesAfterIntr (exSeqWide_N .finish true) (init (exSeqWide_N .finish true)) false
      [.schedPoll, .interrupt, .invoke 2, .finish 2 true, .schedPoll, .schedPoll] = 1
    ∧ handoutsAfterIntr (exSeqWide_N .finish true) (init (exSeqWide_N .finish true)) false
      [.schedPoll, .interrupt, .invoke 2, .finish 2 true, .schedPoll, .schedPoll] = 0 := by decide

/-- … and with the stream parked on `Pending` at the signal nothing is pending and the one
    `Interrupted(Some 1)` function is handed out and invoked -/
example : pendingAtIntr (exSeqChain_N .finish true) (init (exSeqChain_N .finish true))
      [.schedPoll, .invoke 0, .finish 0 true, .schedPoll, .interrupt, .queuerRecv, .schedPoll,
       .invoke 1, .finish 1 true, .schedPoll] = 0
    ∧ invokesAfterIntr (exSeqChain_N .finish true) (init (exSeqChain_N .finish true)) false
      [.schedPoll, .invoke 0, .finish 0 true, .schedPoll, .interrupt, .queuerRecv, .schedPoll,
       .invoke 1, .finish 1 true, .schedPoll] = 1
    ∧ handoutsAfterIntr (exSeqChain_N .finish true) (init (exSeqChain_N .finish true)) false
      [.schedPoll, .invoke 0, .finish 0 true, .schedPoll, .interrupt, .queuerRecv, .schedPoll,
       .invoke 1, .finish 1 true, .schedPoll] = 1 := by decide

example : invokesAfterIntr (exSeqWide_N .finish true) (init (exSeqWide_N .finish true)) false
    exSeqTrace_N ≤ 1 :=
  (seq_finish_invokes_after_interrupt_le _ rfl (Or.inl rfl) _).2.2

/-- the exclusion is a property of the sequential case: the concurrent run `exTrace_N` above has
    3 pending functions AND a hand-out after the signal -/
example : handoutsAfterIntr (exWide_H .finish true) (init (exWide_H .finish true)) false exTrace_N = 1
    ∧ pendingAtIntr (exWide_H .finish true) (init (exWide_H .finish true)) exTrace_N = 3 := by decide

/-! ## B. started functions are completed and reported as processed -/

/-- **C09**: when the call returns an outcome, every function whose closure was started is listed
    as processed, has completed (successfully or with an error), and nothing is still in flight -/
theorem started_all_reported {c : Cfg} {s : PState} (hc : GoodCfg c) (hapi : c.ApiOk)
    (hr : Reachable c s) {fin : Bool} {p np errs : List Nat}
    (h : s.result = some (.outcome fin p np errs)) :
    (∀ f ∈ s.invoked, f ∈ p) ∧ (∀ f ∈ s.invoked, f ∈ s.endedOk ∨ f ∈ s.failed) ∧ s.inflight = [] := by
  have hinv := inv_reachable hc hapi hr
  obtain ⟨hp, _, _, _, _⟩ := outcome_exact hc hapi hr h
  have hinfl := return_no_inflight hc hapi hr (by rw [h]; rfl)
  refine ⟨?_, ?_, hinfl⟩
  · intro f hf
    rw [hp]
    exact hinv.invHanded f hf
  · intro f hf
    rcases hinv.handedSplit f (hinv.invHanded f hf) with h1 | h1
    · rw [hinfl] at h1; cases h1
    · exact h1

/-- extra: conversely everything reported as processed was started (from `outcome_exact`), so the
    processed list and the started functions have the same members -/
theorem started_iff_reported {c : Cfg} {s : PState} (hc : GoodCfg c) (hapi : c.ApiOk)
    (hr : Reachable c s) {fin : Bool} {p np errs : List Nat}
    (h : s.result = some (.outcome fin p np errs)) (f : Nat) : f ∈ s.invoked ↔ f ∈ p := by
  obtain ⟨hp, _, _, _, h5⟩ := outcome_exact hc hapi hr h
  exact ⟨(started_all_reported hc hapi hr h).1 f, fun hf => h5 f (hp ▸ hf)⟩

/-- non-vacuity: the diamond, collecting errors; function 1 fails, 3 is never started; the call
    returns `processed = [0, 2, 1]`, all three started, completed and reported -/
example : ∃ s, Reachable exCollect_F s ∧
    s.result = some (.outcome false [0, 2, 1] [3] [1]) ∧ s.invoked = [0, 2, 1] ∧
    (∀ f ∈ s.invoked, f ∈ [0, 2, 1]) ∧ (∀ f ∈ s.invoked, f ∈ s.endedOk ∨ f ∈ s.failed) ∧
    s.inflight = [] := by
  obtain ⟨s, hr, hp⟩ := reachable_of_any (c := exCollect_F)
    (as := [.schedPoll, .invoke 0, .finish 0 true, .queuerRecv, .schedPoll, .schedPoll, .invoke 2,
            .invoke 1, .finish 2 true, .finish 1 false, .queuerRecv, .queuerEnd, .schedPoll,
            .schedEnd, .ret])
    (p := fun s => s.result == some (.outcome false [0, 2, 1] [3] [1]) && s.invoked == [0, 2, 1])
    (by decide)
  simp only [Bool.and_eq_true, beq_iff_eq] at hp
  obtain ⟨h1, h2, h3⟩ := started_all_reported exCollect_good_F (by unfold Cfg.ApiOk; decide) hr hp.1
  exact ⟨s, hr, hp.1, hp.2, h1, h2, h3⟩

/-! ## C. `NonInterruptible` / `IgnoreInterruptions`: interrupts can be deleted -/

/-- **C08**: with `NonInterruptible` / `IgnoreInterruptions` a schedule and the same schedule without
    its `interrupt` actions are both executable or both not, and the final states differ at most
    in `im` (the bookkeeping of the `InterruptibleStream`). -/
theorem interrupt_only_removes (c : Cfg) (hst : c.strat = .non ∨ c.strat = .ignore)
    (as : List Action) :
    ((run c (init c) as).isSome = (run c (init c) (as.filter (· ≠ .interrupt))).isSome) ∧
    (∀ s t, run c (init c) as = some s → run c (init c) (as.filter (· ≠ .interrupt)) = some t →
      ({ s with im := {} } : PState) = { t with im := {} }) := by
  have key := run_filter_interrupt hst as (init c) (init c) ⟨rfl, rfl, rfl, rfl, rfl⟩
  constructor
  · have := congrArg Option.isSome key
    simpa using this
  · intro s t hs ht
    rw [hs, ht] at key
    simpa [clrIm] using key

/-- the same as one equation between optional states -/
theorem interrupt_only_removes_map (c : Cfg) (hst : c.strat = .non ∨ c.strat = .ignore)
    (as : List Action) :
    (run c (init c) as).map (fun s => ({ s with im := {} } : PState)) =
      (run c (init c) (as.filter (· ≠ .interrupt))).map (fun s => ({ s with im := {} } : PState)) :=
  run_filter_interrupt hst as (init c) (init c) ⟨rfl, rfl, rfl, rfl, rfl⟩

/-- the same with explicit projections: every field other than `im` agrees -/
theorem interrupt_only_removes_fields (c : Cfg) (hst : c.strat = .non ∨ c.strat = .ignore)
    (as : List Action) {s t : PState} (hs : run c (init c) as = some s)
    (ht : run c (init c) (as.filter (· ≠ .interrupt)) = some t) :
    s.counts = t.counts ∧ s.readyQ = t.readyQ ∧ s.readyTxOpen = t.readyTxOpen ∧
    s.readyRxOpen = t.readyRxOpen ∧ s.doneQ = t.doneQ ∧ s.doneTxOpen = t.doneTxOpen ∧
    s.released = t.released ∧ s.qRemaining = t.qRemaining ∧ s.qDone = t.qDone ∧
    s.sRemaining = t.sRemaining ∧ s.handedOut = t.handedOut ∧ s.invoked = t.invoked ∧
    s.inflight = t.inflight ∧ s.endedOk = t.endedOk ∧ s.failed = t.failed ∧ s.errors = t.errors ∧
    s.dropped = t.dropped ∧ s.closeAfter = t.closeAfter ∧ s.streamEnded = t.streamEnded ∧
    s.sDone = t.sDone ∧ s.shortErr = t.shortErr ∧ s.result = t.result ∧ s.panic = t.panic := by
  have h := (interrupt_only_removes c hst as).2 s t hs ht
  obtain ⟨⟩ := s
  obtain ⟨⟩ := t
  simp only [PState.mk.injEq] at h
  simp only
  obtain ⟨h1, h2, h3, h4, h5, h6, h7, h8, h9, h10, h11, h12, h13, h14, h15, h16, h17, h18, _, h19,
    h20, h21, h22, h23⟩ := h
  exact ⟨h1, h2, h3, h4, h5, h6, h7, h8, h9, h10, h11, h12, h13, h14, h15, h16, h17, h18, h19,
    h20, h21, h22, h23⟩

/-- non-vacuity: three signals in a run of the wide graph; the two final states exist, differ in
    `im` (sent / received / counted) and agree elsewhere -/
def exTraceC_N : List Action :=
  [.interrupt, .schedPoll, .schedPoll, .interrupt, .schedPoll, .invoke 2, .finish 2 true,
   .interrupt, .queuerRecv]

example : (run (exWide_H .ignore true) (init (exWide_H .ignore true)) exTraceC_N).map
      (fun s => (s.im.sent, s.im.recv, s.im.cnt)) = some (true, true, 3) := by decide
example : (run (exWide_H .ignore true) (init (exWide_H .ignore true)) exTraceC_N).map
      (fun s => (s.handedOut, s.endedOk, s.released)) = some ([2, 1, 0], [2], [2]) := by decide
example : (run (exWide_H .ignore true) (init (exWide_H .ignore true))
        (exTraceC_N.filter (· ≠ .interrupt))).map
      (fun s => (s.im.sent, s.im.recv, s.im.cnt)) = some (false, false, 0) := by decide
example : (run (exWide_H .ignore true) (init (exWide_H .ignore true))
        (exTraceC_N.filter (· ≠ .interrupt))).map
      (fun s => (s.handedOut, s.endedOk, s.released)) = some ([2, 1, 0], [2], [2]) := by decide
example : (run (exWide_H .non true) (init (exWide_H .non true)) exTraceC_N).map
      (fun s => (s.im.sent, s.handedOut)) = some (true, [2, 1, 0])
    ∧ (run (exWide_H .non true) (init (exWide_H .non true))
        (exTraceC_N.filter (· ≠ .interrupt))).map
      (fun s => (s.im.sent, s.handedOut)) = some (false, [2, 1, 0]) := by decide
example : ∀ s t, run (exWide_H .ignore true) (init (exWide_H .ignore true)) exTraceC_N = some s →
    run (exWide_H .ignore true) (init (exWide_H .ignore true))
      (exTraceC_N.filter (· ≠ .interrupt)) = some t →
    ({ s with im := {} } : PState) = { t with im := {} } :=
  (interrupt_only_removes _ (Or.inr rfl) exTraceC_N).2
/-- … whereas a disabled action stays disabled -/
example : (run (exWide_H .ignore true) (init (exWide_H .ignore true))
      [.interrupt, .schedPoll, .invoke 0]).isSome = false
    ∧ (run (exWide_H .ignore true) (init (exWide_H .ignore true))
      ([Action.interrupt, .schedPoll, .invoke 0].filter (· ≠ .interrupt))).isSome = false := by decide
/-- the hypothesis on the strategy is needed: `FinishCurrent` reacts to the signal -/
example : (run (exWide_H .finish true) (init (exWide_H .finish true))
      [.interrupt, .schedPoll]).map (·.handedOut) = some []
    ∧ (run (exWide_H .finish true) (init (exWide_H .finish true))
      ([Action.interrupt, .schedPoll].filter (· ≠ .interrupt))).map (·.handedOut) = some [2] := by decide

end FG
