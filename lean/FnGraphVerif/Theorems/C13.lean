/-
  Theorems/C13.lean — `ranks()` is the longest dependency chain ending at each function
  (and, for C18, the rank loop does polynomial work).
-/
import FnGraphVerif.Proofs.BuilderInv
import FnGraphVerif.Proofs.RankLemmas
import FnGraphVerif.Model.RankCalc
import FnGraphVerif.Model.Spec
namespace FG

/-- a walk with exactly `k` edges -/
inductive Walk (g : Dag) : Nat → Nat → Nat → Prop
  | nil (a) : Walk g a a 0
  | snoc {a w b k} : Walk g a w k → IsEdge g w b → Walk g a b (k + 1)

/-- `r` is the number of edges of the longest chain ending at `v` -/
def IsLongestChain (g : Dag) (v r : Nat) : Prop :=
  (∃ a, Walk g a v r) ∧ ∀ a k, Walk g a v k → k ≤ r

/-! ### walks -/

theorem Walk.ord_le {g : Dag} {ord : Nat → Nat} (hord : ∀ u v, IsEdge g u v → ord u < ord v)
    {a v k : Nat} (h : Walk g a v k) : ord a + k ≤ ord v := by
  induction h with
  | nil => simp
  | snoc _ he ih => have := hord _ _ he; omega

/-- a walk in a good graph has fewer than `n` edges -/
theorem Walk.lt_n {g : Dag} (hg : GoodG g) {a v k : Nat} (h : Walk g a v k) (hv : v < g.n) : k < g.n := by
  obtain ⟨ord, hord, hb⟩ := exists_ord hg
  have := h.ord_le hord
  have := hb v hv
  omega

theorem Walk.congr {g g' : Dag} (he : ∀ u v, IsEdge g u v → IsEdge g' u v) {a v k : Nat}
    (h : Walk g a v k) : Walk g' a v k := by
  induction h with
  | nil => exact Walk.nil _
  | snoc _ hed ih => exact Walk.snoc ih (he _ _ hed)

theorem IsLongestChain.unique {g : Dag} {v r r' : Nat} (h : IsLongestChain g v r) (h' : IsLongestChain g v r') :
    r = r' := by
  obtain ⟨⟨a, ha⟩, hm⟩ := h
  obtain ⟨⟨a', ha'⟩, hm'⟩ := h'
  have := hm _ _ ha'
  have := hm' _ _ ha
  omega

/-! ### the loop invariant -/

structure RInv (g : Dag) (st : RankSt) : Prop where
  len : st.ranks.length = g.n
  wit : ∀ v : Nat, ∃ a, Walk g a v (st.ranks[v]?.getD 0)
  settled : ∀ w : Nat, w ∈ st.queue
      ∨ (∀ c, IsEdge g w c → st.ranks[w]?.getD 0 + 1 ≤ st.ranks[c]?.getD 0)
      ∨ (st.ranks[w]?.getD 0 = 0 ∧ ∃ p, IsEdge g p w)
  pot : st.pops + st.queue.length ≤ (roots g).length + st.ranks.sum

theorem getD_replicate_zero (n x : Nat) : (List.replicate n 0)[x]?.getD 0 = 0 := by
  rw [List.getElem?_replicate]; split <;> rfl

theorem rinv_init {g : Dag} (hg : GoodG g) : RInv g (rankInit g) := by
  refine ⟨by simp [rankInit], ?_, ?_, by simp [rankInit]⟩
  · intro v; simp only [rankInit, getD_replicate_zero]; exact ⟨v, Walk.nil v⟩
  · intro w
    simp only [rankInit, getD_replicate_zero]
    by_cases hr : isRoot g w = true
    · by_cases hw : w < g.n
      · left; simp [roots, hr, hw]
      · right; left; intro c hc; exact absurd (hc.lt hg.wf).1 hw
    · right; right
      refine ⟨trivial, ?_⟩
      unfold isRoot at hr
      cases hp : parents g w with
      | nil => simp [hp] at hr
      | cons p ps => exact ⟨p, mem_parents.mp (by simp [hp])⟩

theorem rinv_pop {g : Dag} (hg : GoodG g) {st : RankSt} (hi : RInv g st) {u : Nat} {rest : List Nat}
    (hq : st.queue = u :: rest) : RInv g (rankPop false g st u rest) := by
  have hb : ∀ c ∈ children g u, c < st.ranks.length := by
    intro c hc; rw [hi.len]; exact ((mem_children.mp hc).lt hg.wf).2
  have S := relaxFold_spec (st.ranks[u]?.getD 0 + 1) (children g u) st.ranks rest hb
  have hnoself : ¬ u ∈ children g u := fun h => hg.acyclic u (ReachP.edge (mem_children.mp h))
  have hu : ((children g u).foldl (relaxChild false (st.ranks[u]?.getD 0 + 1)) (st.ranks, rest)).1[u]?.getD 0
      = st.ranks[u]?.getD 0 := by
    rcases S.chg u with h | ⟨_, h, _⟩
    · exact h
    · exact absurd h hnoself
  unfold rankPop
  refine ⟨by rw [S.len, hi.len], ?_, ?_, ?_⟩
  · intro v
    show ∃ a, Walk g a v (((children g u).foldl (relaxChild false (st.ranks[u]?.getD 0 + 1)) (st.ranks, rest)).1[v]?.getD 0)
    rcases S.chg v with h | ⟨h, hv, _⟩
    · rw [h]; exact hi.wit v
    · rw [h]
      obtain ⟨a, ha⟩ := hi.wit u
      exact ⟨a, Walk.snoc ha (mem_children.mp hv)⟩
  · intro w
    show w ∈ ((children g u).foldl (relaxChild false (st.ranks[u]?.getD 0 + 1)) (st.ranks, rest)).2
      ∨ (∀ c, IsEdge g w c →
          ((children g u).foldl (relaxChild false (st.ranks[u]?.getD 0 + 1)) (st.ranks, rest)).1[w]?.getD 0 + 1
          ≤ ((children g u).foldl (relaxChild false (st.ranks[u]?.getD 0 + 1)) (st.ranks, rest)).1[c]?.getD 0)
      ∨ (((children g u).foldl (relaxChild false (st.ranks[u]?.getD 0 + 1)) (st.ranks, rest)).1[w]?.getD 0 = 0
          ∧ ∃ p, IsEdge g p w)
    by_cases hwu : w = u
    · subst hwu
      right; left
      intro c hc
      rw [hu]
      exact S.ge c (mem_children.mpr hc)
    · rcases S.chg w with hsame | ⟨_, _, hin⟩
      · rcases hi.settled w with h | h | h
        · rw [hq] at h
          rcases List.mem_cons.mp h with h | h
          · exact absurd h hwu
          · exact Or.inl (S.sub w h)
        · right; left
          intro c hc
          rw [hsame]
          exact Nat.le_trans (h c hc) (S.mono c)
        · right; right
          rw [hsame]; exact h
      · exact Or.inl hin
  · show st.pops + 1 + ((children g u).foldl (relaxChild false (st.ranks[u]?.getD 0 + 1)) (st.ranks, rest)).2.length
      ≤ (roots g).length + ((children g u).foldl (relaxChild false (st.ranks[u]?.getD 0 + 1)) (st.ranks, rest)).1.sum
    have h1 := hi.pot
    have h2 := S.pot
    rw [hq] at h1
    simp only [List.length_cons] at h1
    omega

theorem rinv_rank_lt {g : Dag} (hg : GoodG g) {st : RankSt} (hi : RInv g st) (v : Nat) :
    st.ranks[v]?.getD 0 ≤ g.n - 1 := by
  by_cases hv : v < g.n
  · obtain ⟨a, ha⟩ := hi.wit v
    have := ha.lt_n hg hv
    omega
  · have : st.ranks[v]? = none := by
      apply List.getElem?_eq_none; rw [hi.len]; omega
    simp [this]

theorem rinv_bound {g : Dag} (hg : GoodG g) {st : RankSt} (hi : RInv g st) :
    st.pops + st.queue.length ≤ g.n * g.n := by
  have h1 := hi.pot
  have h2 : (roots g).length ≤ g.n := by
    unfold roots
    have := List.length_filter_le (isRoot g) (List.range g.n)
    simpa using this
  have h3 := sum_le_of_bound st.ranks (g.n - 1) (rinv_rank_lt hg hi)
  rw [hi.len] at h3
  have h4 : g.n + g.n * (g.n - 1) = g.n * g.n := by
    cases g.n with
    | zero => rfl
    | succ k => simp only [Nat.add_sub_cancel]; rw [Nat.mul_succ (k+1) k]; omega
  omega

theorem rankLoop_ok {g : Dag} (hg : GoodG g) : ∀ (fuel : Nat) (st : RankSt), RInv g st →
    g.n * g.n + 1 ≤ st.pops + fuel →
    ∃ st', rankLoop false g fuel st = some st' ∧ RInv g st' ∧ st'.queue = [] := by
  intro fuel
  induction fuel with
  | zero =>
    intro st hi hf
    have := rinv_bound hg hi
    omega
  | succ k ih =>
    intro st hi hf
    unfold rankLoop
    cases hq : st.queue with
    | nil => exact ⟨st, rfl, hi, hq⟩
    | cons u rest =>
      simp only
      apply ih _ (rinv_pop hg hi hq)
      show g.n * g.n + 1 ≤ st.pops + 1 + k
      omega

theorem rankCalc_inv {g : Dag} (hg : GoodG g) {st : RankSt} (h : rankCalc g = some st) :
    RInv g st ∧ st.queue = [] := by
  obtain ⟨st', h1, h2, h3⟩ := rankLoop_ok hg (rankFuel g) (rankInit g) (rinv_init hg)
    (by simp only [rankFuel, rankInit]; omega)
  unfold rankCalc at h
  rw [h1] at h
  cases h
  exact ⟨h2, h3⟩

/-- at exit every edge is relaxed -/
theorem rinv_exit {g : Dag} (hg : GoodG g) {st : RankSt} (hi : RInv g st) (hq : st.queue = []) :
    ∀ w c, IsEdge g w c → st.ranks[w]?.getD 0 + 1 ≤ st.ranks[c]?.getD 0 := by
  obtain ⟨ord, hord, _⟩ := exists_ord hg
  have key : ∀ m w, ord w = m → ∀ c, IsEdge g w c → st.ranks[w]?.getD 0 + 1 ≤ st.ranks[c]?.getD 0 := by
    intro m
    induction m using Nat.strong_induction_on with
    | _ m ih =>
      intro w hw
      rcases hi.settled w with h | h | ⟨h0, p, hp⟩
      · rw [hq] at h; simp at h
      · exact h
      · have := ih (ord p) (by have := hord p w hp; omega) p rfl w hp
        omega
  intro w c hc
  exact key (ord w) w rfl c hc

theorem walk_rank_le {g : Dag} {rk : List Nat}
    (hrel : ∀ w c, IsEdge g w c → rk[w]?.getD 0 + 1 ≤ rk[c]?.getD 0) {a v k : Nat} (h : Walk g a v k) :
    rk[a]?.getD 0 + k ≤ rk[v]?.getD 0 := by
  induction h with
  | nil => simp
  | snoc _ he ih => have := hrel _ _ he; omega

/-! ### a concrete instance for the non-vacuity examples -/

/-- decidable sufficient conditions for `GoodG` (edges go from smaller to larger ids) -/
theorem goodG_of_checks {g : Dag} (hwf : ∀ e ∈ g.edges, e.src < g.n ∧ e.tgt < g.n)
    (hs : ∀ u, u < g.n → (children g u).Nodup ∧ (parents g u).Nodup)
    (hlt : ∀ e ∈ g.edges, e.src < e.tgt) : GoodG g := by
  refine ⟨hwf, ?_, ?_⟩
  · intro u
    by_cases hu : u < g.n
    · exact hs u hu
    · have h1 : children g u = [] := by
        apply List.eq_nil_iff_forall_not_mem.mpr
        intro c hc; exact hu ((mem_children.mp hc).lt hwf).1
      have h2 : parents g u = [] := by
        apply List.eq_nil_iff_forall_not_mem.mpr
        intro c hc; exact hu ((mem_parents.mp hc).lt hwf).2
      rw [h1, h2]; exact ⟨List.nodup_nil, List.nodup_nil⟩
  · have key : ∀ u v, ReachP g u v → u < v := by
      intro u v h
      induction h with
      | edge he => obtain ⟨e, he, rfl, rfl⟩ := he; exact hlt e he
      | tail _ he ih => obtain ⟨e, he, rfl, rfl⟩ := he; have := hlt e he; omega
    intro u h
    exact Nat.lt_irrefl _ (key u u h)

/-- diamond `0 → {1,2} → 3` with the extra chord `1 → 2`: longest chains are `0,1,2,3` -/
def exG_C : Dag := ⟨4, [⟨0,1,.logic⟩, ⟨0,2,.logic⟩, ⟨1,3,.logic⟩, ⟨2,3,.data⟩, ⟨1,2,.contains⟩]⟩
/-- the same edges added in a different order -/
def exG_C' : Dag := ⟨4, [⟨1,2,.contains⟩, ⟨2,3,.data⟩, ⟨0,2,.logic⟩, ⟨1,3,.logic⟩, ⟨0,1,.logic⟩]⟩

theorem exG_good_C : GoodG exG_C := goodG_of_checks (by decide) (by decide) (by decide)
theorem exG_C'_good : GoodG exG_C' := goodG_of_checks (by decide) (by decide) (by decide)
theorem exG_calc_C : rankCalc exG_C = some ⟨[0, 1, 2, 3], [], 6⟩ := by decide
theorem exG_C'_calc : rankCalc exG_C' = some ⟨[0, 1, 2, 3], [], 6⟩ := by decide
theorem exG_edges_C : ∀ u v, IsEdge exG_C u v ↔ IsEdge exG_C' u v := by
  intro u v; simp only [IsEdge, exG_C, exG_C']; constructor <;>
  · rintro ⟨e, he, hs, ht⟩
    simp only [List.mem_cons, List.not_mem_nil, or_false] at he
    refine ⟨e, ?_, hs, ht⟩
    simp only [List.mem_cons, List.not_mem_nil, or_false]
    tauto

/-! ### the theorems -/

/-- **C13 / C18 / C11**: the rank loop never runs out of its `n² + n + 1` fuel on a good graph -/
theorem rankCalc_total {g : Dag} (hg : GoodG g) : ∃ st, rankCalc g = some st := by
  obtain ⟨st', h1, _, _⟩ := rankLoop_ok hg (rankFuel g) (rankInit g) (rinv_init hg)
    (by simp only [rankFuel, rankInit]; omega)
  exact ⟨st', h1⟩

-- non-vacuity: the hypothesis holds of `exG_C`, and the loop indeed returns there
example : ∃ st, rankCalc exG_C = some st ∧ st.ranks = [0, 1, 2, 3] :=
  have ⟨st, h⟩ := rankCalc_total exG_good_C
  ⟨st, h, by rw [exG_calc_C] at h; cases h; rfl⟩

/-- **C13**: every rank is the length of the longest chain of edges ending at that function
    (0 exactly for functions without predecessors).  Kinds and access declarations do not occur. -/
theorem ranks_longest {g : Dag} (hg : GoodG g) {st : RankSt} (h : rankCalc g = some st) :
    st.ranks.length = g.n ∧ ∀ v, v < g.n → IsLongestChain g v (st.ranks[v]?.getD 0) := by
  obtain ⟨hi, hq⟩ := rankCalc_inv hg h
  refine ⟨hi.len, fun v _ => ⟨hi.wit v, ?_⟩⟩
  intro a k hw
  have := walk_rank_le (rinv_exit hg hi hq) hw
  omega

-- non-vacuity: node 3 of `exG_C` has longest chain `0 → 1 → 2 → 3`, node 0 is a root
example : IsLongestChain exG_C 3 3 ∧ IsLongestChain exG_C 2 2 ∧ IsLongestChain exG_C 0 0 :=
  have h := (ranks_longest exG_good_C exG_calc_C).2
  ⟨h 3 (by decide), h 2 (by decide), h 0 (by decide)⟩
example : Walk exG_C 0 3 3 :=
  .snoc (.snoc (.snoc (.nil 0) ⟨⟨0,1,.logic⟩, by decide, rfl, rfl⟩) ⟨⟨1,2,.contains⟩, by decide, rfl, rfl⟩)
    ⟨⟨2,3,.data⟩, by decide, rfl, rfl⟩

/-- **C13**: the result does not depend on the order in which edges were added -/
theorem ranks_order_independent {g g' : Dag} (hg : GoodG g) (hg' : GoodG g') (hn : g.n = g'.n)
    (he : ∀ u v, IsEdge g u v ↔ IsEdge g' u v) {st st' : RankSt}
    (h : rankCalc g = some st) (h' : rankCalc g' = some st') : st.ranks = st'.ranks := by
  obtain ⟨hl, hc⟩ := ranks_longest hg h
  obtain ⟨hl', hc'⟩ := ranks_longest hg' h'
  apply List.ext_getElem?
  intro v
  by_cases hv : v < g.n
  · have h1 := hc v hv
    have h2 := hc' v (hn ▸ hv)
    have h2' : IsLongestChain g v (st'.ranks[v]?.getD 0) := by
      obtain ⟨⟨a, ha⟩, hm⟩ := h2
      exact ⟨⟨a, ha.congr (fun u v h => (he u v).mpr h)⟩,
        fun a k hw => hm a k (hw.congr (fun u v h => (he u v).mp h))⟩
    have heq := h1.unique h2'
    have hv1 : v < st.ranks.length := by omega
    have hv2 : v < st'.ranks.length := by omega
    rw [List.getElem?_eq_getElem hv1, List.getElem?_eq_getElem hv2] at heq ⊢
    simpa using heq
  · rw [List.getElem?_eq_none (by omega), List.getElem?_eq_none (by omega)]

-- non-vacuity: `exG_C` and `exG_C'` have the same edges in different insertion (hence adjacency) order
example : exG_C.edges ≠ exG_C'.edges ∧ children exG_C 0 ≠ children exG_C' 0 := by decide
example : ∀ st st', rankCalc exG_C = some st → rankCalc exG_C' = some st' → st.ranks = st'.ranks :=
  fun _ _ h h' => ranks_order_independent exG_good_C exG_C'_good rfl exG_edges_C h h'

/-- the edge along which a rank is witnessed: strictly increasing along every edge -/
theorem ranks_strict {g : Dag} (hg : GoodG g) {st : RankSt} (h : rankCalc g = some st) {u v : Nat}
    (he : IsEdge g u v) : st.ranks[u]?.getD 0 < st.ranks[v]?.getD 0 := by
  obtain ⟨hi, hq⟩ := rankCalc_inv hg h
  exact rinv_exit hg hi hq u v he

-- non-vacuity: along the edge `1 → 2` of `exG_C`
example : ([0, 1, 2, 3] : List Nat)[1]?.getD 0 < ([0, 1, 2, 3] : List Nat)[2]?.getD 0 :=
  ranks_strict exG_good_C exG_calc_C (u := 1) (v := 2) ⟨⟨1,2,.contains⟩, by decide, rfl, rfl⟩

/-- **C18**: the work list is popped at most `n²` times — not once per root path -/
theorem rank_pops_le {g : Dag} (hg : GoodG g) {st : RankSt} (h : rankCalc g = some st) :
    st.pops ≤ g.n * g.n := by
  obtain ⟨hi, _⟩ := rankCalc_inv hg h
  have := rinv_bound hg hi
  omega

-- non-vacuity: 6 pops on `exG_C` (the pinned `old = true` loop needs 7: one per root path)
example : (6 : Nat) ≤ exG_C.n * exG_C.n := rank_pops_le exG_good_C exG_calc_C
example : (rankLoop true exG_C 100 (rankInit exG_C)).map (·.pops) = some 7 := by decide

/-! ### the synchronous specification -/

theorem Walk.last {g : Dag} {a v k : Nat} (h : Walk g a v (k + 1)) : ∃ w, Walk g a w k ∧ IsEdge g w v := by
  cases h with
  | snoc hw he => exact ⟨_, hw, he⟩

theorem list_ext_getD {l l' : List Nat} (hl : l.length = l'.length)
    (h : ∀ v : Nat, v < l.length → l[v]?.getD 0 = l'[v]?.getD 0) : l = l' := by
  apply List.ext_getElem hl
  intro v h1 h2
  have := h v h1
  rw [List.getElem?_eq_getElem h1, List.getElem?_eq_getElem h2] at this
  simpa using this

/-- one synchronous round turns `min i ∘ L` into `min (i+1) ∘ L` -/
theorem longestRound_min {g : Dag} (hwf : WF g) (L : Nat → Nat)
    (hstrict : ∀ u v, IsEdge g u v → L u + 1 ≤ L v)
    (hwit : ∀ v, L v = 0 ∨ ∃ p, IsEdge g p v ∧ L p + 1 = L v)
    (i : Nat) (r : List Nat) (hr : ∀ v, v < g.n → r[v]?.getD 0 = min i (L v)) :
    (longestRound g r).length = g.n ∧
      ∀ v, v < g.n → (longestRound g r)[v]?.getD 0 = min (i + 1) (L v) := by
  refine ⟨by simp [longestRound], ?_⟩
  intro v hv
  have hget : (longestRound g r)[v]?.getD 0
      = ((parents g v).map (fun p => r[p]?.getD 0 + 1)).foldl max 0 := by
    simp [longestRound, List.getElem?_map, List.getElem?_range hv]
  rw [hget]
  apply Nat.le_antisymm
  · apply foldl_max_le _ _ _ (Nat.zero_le _)
    intro x hx
    obtain ⟨p, hp, rfl⟩ := List.mem_map.mp hx
    have he := mem_parents.mp hp
    rw [hr p (he.lt hwf).1]
    have := hstrict p v he
    omega
  · rcases hwit v with h0 | ⟨p, he, hp⟩
    · rw [h0]; simp
    · apply le_foldl_max_of_mem
      apply List.mem_map.mpr
      refine ⟨p, mem_parents.mpr he, ?_⟩
      rw [hr p (he.lt hwf).1]
      omega

theorem longestIter_min {g : Dag} (hwf : WF g) (L : Nat → Nat)
    (hstrict : ∀ u v, IsEdge g u v → L u + 1 ≤ L v)
    (hwit : ∀ v, L v = 0 ∨ ∃ p, IsEdge g p v ∧ L p + 1 = L v) (l : List Nat) :
    ∀ (i : Nat) (r : List Nat), r.length = g.n → (∀ v, v < g.n → r[v]?.getD 0 = min i (L v)) →
    (l.foldl (fun r _ => longestRound g r) r).length = g.n ∧
      ∀ v, v < g.n → (l.foldl (fun r _ => longestRound g r) r)[v]?.getD 0 = min (i + l.length) (L v) := by
  induction l with
  | nil => intro i r hl hr; exact ⟨hl, by simpa using hr⟩
  | cons x l ih =>
    intro i r _ hr
    obtain ⟨h1, h2⟩ := longestRound_min hwf L hstrict hwit i r hr
    have := ih (i + 1) (longestRound g r) h1 h2
    simp only [List.foldl_cons, List.length_cons]
    rw [show i + (l.length + 1) = i + 1 + l.length by omega]
    exact this

/-- the synchronous specification computes exactly the ranks of the work-list loop -/
theorem longestChains_eq_ranks {g : Dag} (hg : GoodG g) {st : RankSt} (h : rankCalc g = some st) :
    longestChains g = st.ranks := by
  obtain ⟨hi, hq⟩ := rankCalc_inv hg h
  have hrel := rinv_exit hg hi hq
  have hwit : ∀ v : Nat, st.ranks[v]?.getD 0 = 0 ∨
      ∃ p, IsEdge g p v ∧ st.ranks[p]?.getD 0 + 1 = st.ranks[v]?.getD 0 := by
    intro v
    obtain ⟨a, ha⟩ := hi.wit v
    cases hk : st.ranks[v]?.getD 0 with
    | zero => exact Or.inl rfl
    | succ k =>
      right
      rw [hk] at ha
      obtain ⟨w, hw, he⟩ := ha.last
      refine ⟨w, he, ?_⟩
      have h1 := walk_rank_le hrel hw
      have h2 := hrel w v he
      omega
  obtain ⟨h1, h2⟩ := longestIter_min hg.wf (fun v => st.ranks[v]?.getD 0) hrel hwit (List.range g.n) 0
    (List.replicate g.n 0) (by simp) (by intro v _; rw [getD_replicate_zero]; simp)
  unfold longestChains
  apply list_ext_getD (by rw [h1, hi.len])
  intro v hv
  rw [h1] at hv
  have h3 := h2 v hv
  have h4 := rinv_rank_lt hg hi v
  simp only [List.length_range, Nat.zero_add] at h3
  omega

/-- the independent specification used by the driver on real ranks agrees with the theorem -/
theorem longestChains_spec {g : Dag} (hg : GoodG g) :
    (longestChains g).length = g.n ∧ ∀ v, v < g.n → IsLongestChain g v ((longestChains g)[v]?.getD 0) := by
  obtain ⟨st, h⟩ := rankCalc_total hg
  rw [longestChains_eq_ranks hg h]
  exact ranks_longest hg h

-- non-vacuity
example : longestChains exG_C = [0, 1, 2, 3] := by decide
example : IsLongestChain exG_C 3 ((longestChains exG_C)[3]?.getD 0) := (longestChains_spec exG_good_C).2 3 (by decide)

end FG
