/-
  Theorems/MonitorSound.lean — MONITOR SOUNDNESS: a trace accepted by the tracking monitor
  (`trackFut` / `trackRun`, non-coop sessions) IS a run of the model.

  * `advanceUntil_run`, `settleN_run'`, `settle_run'` (in `Proofs/PTrack.lean`): on its own the
    monitor only ever performs internal model actions.
  * `trackFut_sound` / `track_sound`: when every note is `ok`, the monitor's state after the
    events is reached from its state before them by a run of the model whose external actions
    (`finish`, `interrupt`) are exactly the external events, in order.  `track_reachable`.
  * `track_q`, `track_ret`, `track_retErr`: what an accepted `q` / `ret` event says about the
    model state (with `natsText` injective: equality of the lists, not only of their texts).
  * `track_handout`: an accepted hand-out event appends exactly that function to `handedOut`.
-/
import FnGraphVerif.Proofs.PText
import FnGraphVerif.Proofs.PTrack
import FnGraphVerif.Proofs.PCoop
import FnGraphVerif.Theorems.C04
namespace FG

theorem Note.ok_cmp {facet what m i : String} : (Note.cmp facet what m i).ok = true ↔ m = i := by
  simp [Note.ok]

/-! ### 1. the monitor's own moves are internal model actions

`advanceUntil_run`, `settleN_run'`, `settle_run'` are proved in `Proofs/PTrack.lean`; restated here
as the assigned statement. -/

example (c : Cfg) (p : PState → Bool) (k : Nat) (s : PState) :
    ∃ as, (∀ a ∈ as, a.isExternal = false) ∧ run c s as = some (advanceUntil c p k s).1 :=
  advanceUntil_run c p k s
example (c : Cfg) (s : PState) :
    ∃ as, (∀ a ∈ as, a.isExternal = false) ∧ run c s as = some (settle c s) := settle_run' c s
example (c : Cfg) (k : Nat) (s : PState) :
    ∃ as, (∀ a ∈ as, a.isExternal = false) ∧ run c s as = some (settleN c k s) := settleN_run' c k s

/-! the running example: the diamond `0 → 1 → 3`, `0 → 2 → 3` (`Proofs/LiveExample.lean`), limit 2,
    errors collected, `PollNextN(1)`, a `*_control` API, not coop -/
def exX_P_P_P : MonCtx :=
  { c := exC_G (some 2), decls := [], userD := exD_G, rev := false, control := true,
    interruptible := false, coop := false }

/-- the monitor before the first event -/
def exT0_P_P_P : TrackSt := { s := init exX_P_P_P.c }

/-- the events before the return: `0`; then `2` and `1` concurrently; `1` ends, the interrupt
    signal is sent, `2` fails -/
def exTrace12_P_P_P : List Ev :=
  [.handout 0, .invoke 0, .q, .fin 0 true, .handout 2, .invoke 2, .handout 1, .invoke 1, .q,
   .fin 1 true, .intr, .fin 2 false]

/-- an accepted trace: … and the call returns `Interrupted`, `3` not processed, `Break` -/
def exTrace_P_P_P : List Ev := exTrace12_P_P_P ++ [.retOutcome false [0, 2, 1] [3] [2] "break"]

/- non-vacuity of 1.: `advanceUntil` really moves (it polls the scheduler until `0` is handed out),
   and it reports failure when the predicate cannot be reached -/
set_option maxRecDepth 100000 in
example : (advanceUntil exX_P_P_P.c (fun s => decide (0 < s.handedOut.length)) (trackFuel exX_P_P_P.c) (init exX_P_P_P.c)).1.handedOut = [0] ∧
    (advanceUntil exX_P_P_P.c (fun s => decide (0 < s.handedOut.length)) (trackFuel exX_P_P_P.c) (init exX_P_P_P.c)).2 = true ∧
    (advanceUntil exX_P_P_P.c (fun s => decide (3 ∈ s.invoked)) (trackFuel exX_P_P_P.c) (init exX_P_P_P.c)).2 = false := by
  decide

/-! ### the state component of `trackFut`, event by event -/

/-- the state the hand-out event advances from (coop sessions first drain the done queue and move
    the observed function to the front of the ready queue) -/
def handoutStart (x : MonCtx) (t : TrackSt) (f : Nat) : PState :=
  if x.coop then
    let sq := (advanceUntil x.c (fun s => s.doneQ.isEmpty || s.qDone) (trackFuel x.c) t.s).1
    if f ∈ sq.readyQ then { sq with readyQ := f :: sq.readyQ.erase f } else sq
  else t.s

theorem handoutStart_noncoop {x : MonCtx} (hcoop : x.coop = false) (t : TrackSt) (f : Nat) :
    handoutStart x t f = t.s := by
  simp [handoutStart, hcoop]

theorem handoutStart_handedOut_prefix (x : MonCtx) (t : TrackSt) (f : Nat) :
    t.s.handedOut <+: (handoutStart x t f).handedOut := by
  unfold handoutStart
  split
  · have h := advanceUntil_handedOut_prefix x.c (fun s => s.doneQ.isEmpty || s.qDone) (trackFuel x.c) t.s
    simp only
    split
    · exact h
    · exact h
  · exact List.prefix_refl _

/-- the `advanceUntil` of the hand-out event -/
def handoutAdv (x : MonCtx) (t : TrackSt) (f : Nat) : PState × Bool :=
  advanceUntil x.c (fun s => decide (t.s.handedOut.length < s.handedOut.length)) (trackFuel x.c)
    (handoutStart x t f)

theorem trackFut_handout_s (x : MonCtx) (t : TrackSt) (f : Nat) :
    (trackFut x t (.handout f)).1.s = (handoutAdv x t f).1 := rfl

theorem trackFut_handout_notes (x : MonCtx) (t : TrackSt) (f : Nat) :
    (trackFut x t (.handout f)).2 =
      [.cmp "R-step" (Ev.handout f).text
        (if (handoutAdv x t f).2 then natsText ((handoutAdv x t f).1.handedOut.drop t.s.handedOut.length)
         else "none-enabled") (toString f)] := rfl

/-- the three ways the monitor replays an `invoke` event -/
def invokeAdv (x : MonCtx) (t : TrackSt) (f : Nat) : PState × Bool :=
  if f ∈ t.s.inflight ∧ f ∉ t.s.invoked then ((step? x.c t.s (.invoke f)).getD t.s, true)
  else if f ∈ t.s.invoked ∧ (t.realInvoked.count f < t.s.invoked.count f) then (t.s, true)
  else advanceUntil x.c (fun s => decide (f ∈ s.invoked)) (trackFuel x.c) t.s

theorem trackFut_invoke_s (x : MonCtx) (t : TrackSt) (f : Nat) :
    (trackFut x t (.invoke f)).1.s = (invokeAdv x t f).1 := rfl

theorem invokeAdv_run (x : MonCtx) (t : TrackSt) (f : Nat) :
    ∃ as, (∀ a ∈ as, a.isExternal = false) ∧ run x.c t.s as = some (invokeAdv x t f).1 := by
  unfold invokeAdv
  split
  · rename_i hg
    have hs : step? x.c t.s (.invoke f) = some { t.s with invoked := t.s.invoked ++ [f] } := by
      simp only [step?, hg, not_false_eq_true, and_self, if_true]
    refine ⟨[.invoke f], ?_, ?_⟩
    · intro a ha
      rw [List.mem_singleton.mp ha]
      rfl
    · simp only [run, hs, Option.getD_some]
  · split
    · exact ⟨[], by simp, rfl⟩
    · exact advanceUntil_run _ _ _ _

/-- the state in which the monitor tries the `finish` action -/
def finStart (x : MonCtx) (t : TrackSt) (f : Nat) : PState :=
  if f ∈ t.s.invoked then t.s
  else (advanceUntil x.c (fun s => decide (f ∈ s.invoked)) (trackFuel x.c) t.s).1

theorem finStart_run (x : MonCtx) (t : TrackSt) (f : Nat) :
    ∃ as, (∀ a ∈ as, a.isExternal = false) ∧ run x.c t.s as = some (finStart x t f) := by
  unfold finStart
  split
  · exact ⟨[], by simp, rfl⟩
  · exact advanceUntil_run _ _ _ _

theorem trackFut_fin (x : MonCtx) (t : TrackSt) (f : Nat) (ok : Bool) :
    trackFut x t (.fin f ok) =
      match step? x.c (finStart x t f) (.finish f ok) with
      | some s' => ({ t with s := s' }, [.cmp "R-step" (Ev.fin f ok).text "enabled" "enabled"])
      | none => ({ t with s := finStart x t f }, [.cmp "R-step" (Ev.fin f ok).text "not-enabled" "enabled"]) := rfl

/-- an accepted `fin` event: the `finish` action was enabled (after internal actions) -/
theorem trackFut_fin_enabled {x : MonCtx} {t : TrackSt} {f : Nat} {ok : Bool}
    (hok : ∀ n ∈ (trackFut x t (.fin f ok)).2, n.ok = true) :
    step? x.c (finStart x t f) (.finish f ok) = some (trackFut x t (.fin f ok)).1.s := by
  rw [trackFut_fin] at hok ⊢
  cases hs : step? x.c (finStart x t f) (.finish f ok) with
  | some s' => rfl
  | none =>
    exfalso
    rw [hs] at hok
    have := hok _ List.mem_cons_self
    exact absurd (Note.ok_cmp.mp this) (by decide)

/-! ### 2. one event -/

/-- **Monitor soundness, one event**: an accepted event is a run of the model from the monitor's
    state before the event to its state after it; the run's external actions are exactly the
    event's external action (`finish` / `interrupt`), everything else the monitor did on its own is
    internal.  `hcoop` cannot be dropped: in coop sessions the hand-out event may reorder the ready
    queue, which is NOT a model action — `trackFut_sound_coop_counter` (`Proofs/PCoop.lean`) is an
    accepted coop event that no run of the model matches. -/
theorem trackFut_sound {x : MonCtx} {t : TrackSt} {e : Ev} (hcoop : x.coop = false)
    (hok : ∀ n ∈ (trackFut x t e).2, n.ok = true) :
    ∃ as, run x.c t.s as = some (trackFut x t e).1.s ∧
      as.filter Action.isExternal = e.external?.toList := by
  cases e with
  | intr =>
    refine ⟨[.interrupt], ?_, rfl⟩
    simp only [trackFut, run, step?, Option.getD_some]
  | handout f =>
    rw [trackFut_handout_s]
    unfold handoutAdv
    rw [handoutStart_noncoop hcoop]
    obtain ⟨as, has, hrun⟩ := advanceUntil_run x.c
      (fun s => decide (t.s.handedOut.length < s.handedOut.length)) (trackFuel x.c) t.s
    exact ⟨as, hrun, by rw [filter_external_nil has]; rfl⟩
  | invoke f =>
    rw [trackFut_invoke_s]
    obtain ⟨as, has, hrun⟩ := invokeAdv_run x t f
    exact ⟨as, hrun, by rw [filter_external_nil has]; rfl⟩
  | fin f ok =>
    obtain ⟨as, has, hrun⟩ := finStart_run x t f
    refine ⟨as ++ [.finish f ok], run_snoc hrun (trackFut_fin_enabled hok), ?_⟩
    rw [List.filter_append, filter_external_nil has]
    rfl
  | q =>
    obtain ⟨as, has, hrun⟩ := settle_run' x.c t.s
    exact ⟨as, hrun, by rw [filter_external_nil has]; rfl⟩
  | retOutcome fnd p np errs fl =>
    obtain ⟨as, has, hrun⟩ := settle_run' x.c t.s
    exact ⟨as, hrun, by rw [filter_external_nil has]; rfl⟩
  | retErr f =>
    obtain ⟨as, has, hrun⟩ := settle_run' x.c t.s
    exact ⟨as, hrun, by rw [filter_external_nil has]; rfl⟩
  | panic => exact ⟨[], rfl, rfl⟩
  | aborted => exact ⟨[], rfl, rfl⟩
  | livelock => exact ⟨[], rfl, rfl⟩
  | poll r => exact ⟨[], rfl, rfl⟩
  | drop f w => exact ⟨[], rfl, rfl⟩
  | other => exact ⟨[], rfl, rfl⟩

/-- the refined form: for every event except `intr` / `fin` the run is internal only, for those two
    it is internal actions followed by exactly that external action -/
theorem trackFut_sound_shape {x : MonCtx} {t : TrackSt} {e : Ev} (hcoop : x.coop = false)
    (hok : ∀ n ∈ (trackFut x t e).2, n.ok = true) :
    ∃ as, (∀ a ∈ as, a.isExternal = false) ∧
      run x.c t.s (as ++ e.external?.toList) = some (trackFut x t e).1.s := by
  cases e with
  | intr =>
    refine ⟨[], by simp, ?_⟩
    simp only [trackFut, Ev.external?, Option.toList_some, List.nil_append, run, step?, Option.getD_some]
  | fin f ok =>
    obtain ⟨as, has, hrun⟩ := finStart_run x t f
    exact ⟨as, has, run_snoc hrun (trackFut_fin_enabled hok)⟩
  | handout f =>
    obtain ⟨as, h1, h2⟩ := trackFut_sound (e := .handout f) hcoop hok
    refine ⟨as, ?_, by simpa [Ev.external?] using h1⟩
    intro a ha
    cases hx : a.isExternal with
    | false => rfl
    | true =>
      have : a ∈ as.filter Action.isExternal := List.mem_filter.mpr ⟨ha, hx⟩
      rw [h2] at this
      simp [Ev.external?] at this
  | invoke f =>
    obtain ⟨as, has, hrun⟩ := invokeAdv_run x t f
    exact ⟨as, has, by rw [show ∀ l : List Action, as ++ l = as ++ l from fun _ => rfl]; exact (List.append_nil as).symm ▸ hrun⟩
  | q =>
    obtain ⟨as, has, hrun⟩ := settle_run' x.c t.s
    exact ⟨as, has, by rw [show ∀ l : List Action, as ++ l = as ++ l from fun _ => rfl]; exact (List.append_nil as).symm ▸ hrun⟩
  | retOutcome fnd p np errs fl =>
    obtain ⟨as, has, hrun⟩ := settle_run' x.c t.s
    exact ⟨as, has, by rw [show ∀ l : List Action, as ++ l = as ++ l from fun _ => rfl]; exact (List.append_nil as).symm ▸ hrun⟩
  | retErr f =>
    obtain ⟨as, has, hrun⟩ := settle_run' x.c t.s
    exact ⟨as, has, by rw [show ∀ l : List Action, as ++ l = as ++ l from fun _ => rfl]; exact (List.append_nil as).symm ▸ hrun⟩
  | panic => exact ⟨[], by simp, rfl⟩
  | aborted => exact ⟨[], by simp, rfl⟩
  | livelock => exact ⟨[], by simp, rfl⟩
  | poll r => exact ⟨[], by simp, rfl⟩
  | drop f w => exact ⟨[], by simp, rfl⟩
  | other => exact ⟨[], by simp, rfl⟩

/- non-vacuity of 2.: accepted events in the running example — the first hand-out (internal actions
   only), a completion and the interrupt (exactly that external action); and a rejected event:
   `1` cannot end before it was handed out, the note is not `ok` -/
set_option maxRecDepth 100000 in
example : ∃ as, run exX_P_P_P.c exT0_P_P_P.s as = some (trackFut exX_P_P_P exT0_P_P_P (.handout 0)).1.s ∧
    as.filter Action.isExternal = [] :=
  trackFut_sound (x := exX_P_P_P) (e := .handout 0) rfl (by decide)
set_option maxRecDepth 100000 in
example : ∃ as, run exX_P_P_P.c (trackRun exX_P_P_P exT0_P_P_P (exTrace12_P_P_P.take 3)).1.s as =
      some (trackFut exX_P_P_P (trackRun exX_P_P_P exT0_P_P_P (exTrace12_P_P_P.take 3)).1 (.fin 0 true)).1.s ∧
    as.filter Action.isExternal = [.finish 0 true] :=
  trackFut_sound (x := exX_P_P_P) (e := .fin 0 true) rfl (by decide)
example : ∃ as, run exX_P_P_P.c exT0_P_P_P.s as = some (trackFut exX_P_P_P exT0_P_P_P .intr).1.s ∧
    as.filter Action.isExternal = [.interrupt] :=
  trackFut_sound (x := exX_P_P_P) (e := .intr) rfl (by decide)
set_option maxRecDepth 100000 in
example : ¬ ∀ n ∈ (trackFut exX_P_P_P exT0_P_P_P (.fin 1 true)).2, n.ok = true := by decide
/- `hcoop` is needed -/
example : ∃ (x : MonCtx) (t : TrackSt) (e : Ev), x.coop = true ∧ Reachable x.c t.s ∧
    (∀ n ∈ (trackFut x t e).2, n.ok = true) ∧ ¬ ∃ as, run x.c t.s as = some (trackFut x t e).1.s :=
  trackFut_sound_coop_counter

/-! ### 3. a whole trace -/

theorem trackRun_cons (x : MonCtx) (t : TrackSt) (e : Ev) (es : List Ev) :
    trackRun x t (e :: es) =
      ((trackRun x (trackFut x t e).1 es).1, (trackFut x t e).2 ++ (trackRun x (trackFut x t e).1 es).2) := rfl

theorem trackRun_append (x : MonCtx) (t : TrackSt) (es fs : List Ev) :
    trackRun x t (es ++ fs) =
      ((trackRun x (trackRun x t es).1 fs).1, (trackRun x t es).2 ++ (trackRun x (trackRun x t es).1 fs).2) := by
  induction es generalizing t with
  | nil => rfl
  | cons e es ih =>
    rw [List.cons_append, trackRun_cons, trackRun_cons, ih]
    simp only [List.append_assoc]

theorem trackRun_singleton (x : MonCtx) (t : TrackSt) (e : Ev) :
    trackRun x t [e] = ((trackFut x t e).1, (trackFut x t e).2) := by
  simp [trackRun]

/-- **Monitor soundness**: a trace accepted by the tracking monitor is a run of the model whose
    external actions are exactly the observed completions and interrupt signals, in order. -/
theorem track_sound {x : MonCtx} (hcoop : x.coop = false) {t : TrackSt} {evs : List Ev}
    (hok : ∀ n ∈ (trackRun x t evs).2, n.ok = true) :
    ∃ as, run x.c t.s as = some (trackRun x t evs).1.s ∧
      as.filter Action.isExternal = evs.filterMap Ev.external? := by
  induction evs generalizing t with
  | nil => exact ⟨[], rfl, rfl⟩
  | cons e es ih =>
    rw [trackRun_cons] at hok ⊢
    simp only at hok ⊢
    obtain ⟨as1, hrun1, hf1⟩ := trackFut_sound (e := e) hcoop (fun n hn => hok n (List.mem_append_left _ hn))
    obtain ⟨as2, hrun2, hf2⟩ := ih (t := (trackFut x t e).1) (fun n hn => hok n (List.mem_append_right _ hn))
    refine ⟨as1 ++ as2, ?_, ?_⟩
    · rw [run_append_G hrun1]; exact hrun2
    · rw [List.filter_append, hf1, hf2]
      cases e <;> rfl

theorem track_reachable {x : MonCtx} (hcoop : x.coop = false) {t : TrackSt} {evs : List Ev}
    (hok : ∀ n ∈ (trackRun x t evs).2, n.ok = true) (hr : Reachable x.c t.s) :
    Reachable x.c (trackRun x t evs).1.s := by
  obtain ⟨as, hrun, _⟩ := track_sound hcoop hok
  exact run_reachable_G hr hrun

/-- an accepted trace started in the initial state: the monitor's final state is what the model
    reaches from `init` by a run with exactly the observed external actions -/
theorem track_sound_init {x : MonCtx} (hcoop : x.coop = false) {evs : List Ev}
    (hok : ∀ n ∈ (trackRun x { s := init x.c } evs).2, n.ok = true) :
    Reachable x.c (trackRun x { s := init x.c } evs).1.s ∧
    ∃ as, run x.c (init x.c) as = some (trackRun x { s := init x.c } evs).1.s ∧
      as.filter Action.isExternal = evs.filterMap Ev.external? :=
  ⟨track_reachable hcoop hok .init, track_sound hcoop hok⟩

/- non-vacuity of 3.: the example trace (up to the return; the whole trace: end of section 4) is
   accepted; the run the theorem yields has the external actions `finish 0 ok, finish 1 ok, interrupt,
   finish 2 err`; dropping an event (`handout 2`) makes the monitor reject -/
set_option maxRecDepth 100000 in
theorem exTrace12_ok_P_P_P : ∀ n ∈ (trackRun exX_P_P_P exT0_P_P_P exTrace12_P_P_P).2, n.ok = true := by decide
set_option maxRecDepth 100000 in
theorem exTrace12_result_P_P_P :
    (settle exX_P_P_P.c (trackRun exX_P_P_P exT0_P_P_P exTrace12_P_P_P).1.s).result = some (.outcome false [0, 2, 1] [3] [2]) := by
  decide
example : ∃ as, run exX_P_P_P.c (init exX_P_P_P.c) as = some (trackRun exX_P_P_P exT0_P_P_P exTrace12_P_P_P).1.s ∧
    as.filter Action.isExternal = [.finish 0 true, .finish 1 true, .interrupt, .finish 2 false] :=
  track_sound (x := exX_P_P_P) rfl exTrace12_ok_P_P_P
example : Reachable exX_P_P_P.c (trackRun exX_P_P_P exT0_P_P_P exTrace12_P_P_P).1.s :=
  track_reachable (x := exX_P_P_P) rfl exTrace12_ok_P_P_P .init
set_option maxRecDepth 100000 in
example : ¬ ∀ n ∈ (trackRun exX_P_P_P exT0_P_P_P (exTrace12_P_P_P.eraseIdx 4)).2, n.ok = true := by decide

/-! ### 4. what an accepted `q` / `ret` event means -/

theorem trackFut_q_s (x : MonCtx) (t : TrackSt) : (trackFut x t .q).1.s = settle x.c t.s := rfl

theorem trackFut_q_notes (x : MonCtx) (t : TrackSt) :
    (trackFut x t .q).2 =
     [.cmp "R-quiesce" (Ev.q.text ++ " returned") (toString (settle x.c t.s).result.isSome) "false",
      .cmp "R-quiesce" (Ev.q.text ++ " invoked") (natsText (settle x.c t.s).invoked) (natsText t.realInvoked)]
     ++ (if t.sawHandoutHook || t.realInvoked.isEmpty then
           [.cmp "R-quiesce" (Ev.q.text ++ " handedOut") (natsText (settle x.c t.s).handedOut) (natsText t.realHandout)] else [])
     ++ [.cmp "R-quiesce" (Ev.q.text ++ " panic") (toString (settle x.c t.s).panic) "false"] := rfl

/-- an accepted `q`: the model, run to quiescence, has not returned, has not panicked, and has
    invoked exactly the functions the implementation invoked, in the same order -/
theorem track_q {x : MonCtx} {t : TrackSt} (hc : GoodCfg x.c) (hr : Reachable x.c t.s)
    (hok : ∀ n ∈ (trackFut x t .q).2, n.ok = true) :
    Quiescent x.c (trackFut x t .q).1.s ∧ (trackFut x t .q).1.s.result = none ∧
    (trackFut x t .q).1.s.panic = false ∧
    natsText (trackFut x t .q).1.s.invoked = natsText t.realInvoked := by
  rw [trackFut_q_notes] at hok
  rw [trackFut_q_s]
  refine ⟨settle_quiescent hc hr, ?_, ?_, ?_⟩
  · have h := Note.ok_cmp.mp (hok (.cmp "R-quiesce" (Ev.q.text ++ " returned") (toString (settle x.c t.s).result.isSome) "false") (by simp))
    have := toString_bool_false h
    simpa using this
  · have h := Note.ok_cmp.mp (hok (.cmp "R-quiesce" (Ev.q.text ++ " panic") (toString (settle x.c t.s).panic) "false") (by simp))
    exact toString_bool_false h
  · exact Note.ok_cmp.mp (hok (.cmp "R-quiesce" (Ev.q.text ++ " invoked") (natsText (settle x.c t.s).invoked) (natsText t.realInvoked)) (by simp))

/-- `track_q` with equality of lists (by `natsText_inj`), and the hand-out list when it is compared -/
theorem track_q_lists {x : MonCtx} {t : TrackSt} (hc : GoodCfg x.c) (hr : Reachable x.c t.s)
    (hok : ∀ n ∈ (trackFut x t .q).2, n.ok = true) :
    (trackFut x t .q).1.s = settle x.c t.s ∧
    Quiescent x.c (trackFut x t .q).1.s ∧ (trackFut x t .q).1.s.result = none ∧
    (trackFut x t .q).1.s.panic = false ∧
    (trackFut x t .q).1.s.invoked = t.realInvoked ∧
    ((t.sawHandoutHook || t.realInvoked.isEmpty) = true → (trackFut x t .q).1.s.handedOut = t.realHandout) := by
  obtain ⟨h1, h2, h3, h4⟩ := track_q hc hr hok
  refine ⟨rfl, h1, h2, h3, natsText_inj h4, ?_⟩
  intro hh
  rw [trackFut_q_notes, hh] at hok
  rw [trackFut_q_s]
  exact natsText_inj (Note.ok_cmp.mp (hok (.cmp "R-quiesce" (Ev.q.text ++ " handedOut") (natsText (settle x.c t.s).handedOut) (natsText t.realHandout)) (by simp)))

theorem trackFut_retOutcome_s (x : MonCtx) (t : TrackSt) (fnd : Bool) (p np errs : List Nat) (fl : String) :
    (trackFut x t (.retOutcome fnd p np errs fl)).1.s = settle x.c t.s := rfl

theorem trackFut_retOutcome_notes (x : MonCtx) (t : TrackSt) (fnd : Bool) (p np errs : List Nat) (fl : String) :
    (trackFut x t (.retOutcome fnd p np errs fl)).2 =
      [.cmp "R-outcome" (Ev.retOutcome fnd p np errs fl).text
        (match (settle x.c t.s).result with | some r => retText r x.control | none => "not-returned")
        (Ev.retOutcome fnd p np (errs.mergeSort (· ≤ ·)) fl).text] := rfl

/-- an accepted `ret` (outcome) event: the model, run to quiescence, has returned, and the text of
    its return value is the observed text with the errors sorted -/
theorem track_ret {x : MonCtx} {t : TrackSt} {fnd : Bool} {p np errs : List Nat} {fl : String}
    (hok : ∀ n ∈ (trackFut x t (.retOutcome fnd p np errs fl)).2, n.ok = true) :
    ∃ r, (trackFut x t (.retOutcome fnd p np errs fl)).1.s.result = some r ∧
      retText r x.control = (Ev.retOutcome fnd p np (errs.mergeSort (· ≤ ·)) fl).text := by
  rw [trackFut_retOutcome_notes] at hok
  rw [trackFut_retOutcome_s]
  have h := Note.ok_cmp.mp (hok _ List.mem_cons_self)
  cases hres : (settle x.c t.s).result with
  | none =>
    rw [hres] at h
    exact absurd h (notReturned_ne_retOutcome _ _ _ _ _)
  | some r =>
    rw [hres] at h
    exact ⟨r, rfl, h⟩

/-- decoded: the model returned an `outcome` with the observed state, processed and not-processed
    lists, the same errors up to order, and the observed control flow -/
theorem track_ret_outcome {x : MonCtx} {t : TrackSt} {fnd : Bool} {p np errs : List Nat} {fl : String}
    (hok : ∀ n ∈ (trackFut x t (.retOutcome fnd p np errs fl)).2, n.ok = true) :
    ∃ errs', (trackFut x t (.retOutcome fnd p np errs fl)).1.s.result = some (.outcome fnd p np errs') ∧
      errs'.mergeSort (· ≤ ·) = errs.mergeSort (· ≤ ·) ∧ errs'.Perm errs ∧
      fl = flowText (.outcome fnd p np errs') x.control := by
  obtain ⟨r, hres, htext⟩ := track_ret hok
  cases r with
  | err g =>
    rw [retText_err] at htext
    exact absurd htext (retErr_text_ne_retOutcome _ _ _ _ _ _)
  | outcome fnd' p' np' errs' =>
    rw [retText_outcome] at htext
    obtain ⟨rfl, rfl, rfl, he, hfl⟩ := retOutcome_text_inj htext
    refine ⟨errs', hres, he, ?_, hfl.symm⟩
    exact ((List.mergeSort_perm errs' _).symm.trans (he ▸ List.mergeSort_perm errs _))

/-- conversely: exactly those return events are accepted -/
theorem trackFut_retOutcome_accepts {x : MonCtx} {t : TrackSt} {fnd : Bool} {p np errs errs' : List Nat}
    (hres : (settle x.c t.s).result = some (.outcome fnd p np errs'))
    (he : errs'.mergeSort (· ≤ ·) = errs.mergeSort (· ≤ ·)) :
    ∀ n ∈ (trackFut x t (.retOutcome fnd p np errs (flowText (.outcome fnd p np errs') x.control))).2,
      n.ok = true := by
  intro n hn
  rw [trackFut_retOutcome_notes, hres] at hn
  rw [List.mem_singleton.mp hn]
  apply Note.ok_cmp.mpr
  simp only
  rw [retText_outcome, he]

theorem trackFut_retErr_s (x : MonCtx) (t : TrackSt) (f : Nat) :
    (trackFut x t (.retErr f)).1.s = settle x.c t.s := rfl

theorem trackFut_retErr_notes (x : MonCtx) (t : TrackSt) (f : Nat) :
    (trackFut x t (.retErr f)).2 =
      [.cmp "R-outcome" (Ev.retErr f).text
        (match (settle x.c t.s).result with | some r => retText r x.control | none => "not-returned")
        (Ev.retErr f).text] := rfl

/-- an accepted `ret err f`: the model returned `Err` of the same function -/
theorem track_retErr {x : MonCtx} {t : TrackSt} {f : Nat}
    (hok : ∀ n ∈ (trackFut x t (.retErr f)).2, n.ok = true) :
    (trackFut x t (.retErr f)).1.s.result = some (.err f) ∧
      retText (.err f) x.control = (Ev.retErr f).text := by
  rw [trackFut_retErr_notes] at hok
  rw [trackFut_retErr_s]
  have h := Note.ok_cmp.mp (hok _ List.mem_cons_self)
  cases hres : (settle x.c t.s).result with
  | none =>
    rw [hres] at h
    exact absurd h (notReturned_ne_retErr _)
  | some r =>
    rw [hres] at h
    simp only at h
    cases r with
    | err g =>
      rw [retText_err] at h
      rw [retErr_text_inj h]
      exact ⟨rfl, rfl⟩
    | outcome fnd' p' np' errs' =>
      rw [retText_outcome] at h
      exact absurd h.symm (retErr_text_ne_retOutcome _ _ _ _ _ _)

/-- the state after an accepted return event is a reachable, returned, quiescent state -/
theorem track_ret_quiescent {x : MonCtx} {t : TrackSt} {fnd : Bool} {p np errs : List Nat} {fl : String}
    (hc : GoodCfg x.c) (hr : Reachable x.c t.s) :
    Quiescent x.c (trackFut x t (.retOutcome fnd p np errs fl)).1.s ∧
    Reachable x.c (trackFut x t (.retOutcome fnd p np errs fl)).1.s :=
  ⟨settle_quiescent hc hr, settle_reachable hr⟩

/- non-vacuity of 4.: the second `q` of the example trace (after 8 events: `2` and `1` in flight)
   and its final `ret` (after 12 events) -/
theorem exT8_reach_P_P_P : Reachable exX_P_P_P.c (trackRun exX_P_P_P exT0_P_P_P (exTrace12_P_P_P.take 8)).1.s :=
  track_reachable (x := exX_P_P_P) rfl (by set_option maxRecDepth 100000 in decide) .init
set_option maxRecDepth 100000 in
example : (trackFut exX_P_P_P (trackRun exX_P_P_P exT0_P_P_P (exTrace12_P_P_P.take 8)).1 .q).1.s.invoked = [0, 2, 1] ∧
    Quiescent exX_P_P_P.c (trackFut exX_P_P_P (trackRun exX_P_P_P exT0_P_P_P (exTrace12_P_P_P.take 8)).1 .q).1.s :=
  have h := track_q_lists (x := exX_P_P_P) (exC_good_G _) exT8_reach_P_P_P (by decide)
  ⟨h.2.2.2.2.1.trans (by decide), h.2.1⟩
set_option maxRecDepth 100000 in
example : ∃ errs', (trackFut exX_P_P_P (trackRun exX_P_P_P exT0_P_P_P exTrace12_P_P_P).1
      (.retOutcome false [0, 2, 1] [3] [2] "break")).1.s.result = some (.outcome false [0, 2, 1] [3] errs') ∧
    errs'.mergeSort (· ≤ ·) = [2].mergeSort (· ≤ ·) ∧ errs'.Perm [2] ∧
    "break" = flowText (.outcome false [0, 2, 1] [3] errs') exX_P_P_P.control :=
  track_ret_outcome (x := exX_P_P_P) (trackFut_retOutcome_accepts (x := exX_P_P_P) (errs := [2]) exTrace12_result_P_P_P rfl)
/- a `q` after the call has returned, and a wrong outcome, are rejected -/
set_option maxRecDepth 100000 in
example : ¬ ∀ n ∈ (trackFut exX_P_P_P (trackRun exX_P_P_P exT0_P_P_P exTrace12_P_P_P).1 .q).2, n.ok = true := by decide
set_option maxRecDepth 100000 in
example : ¬ ∀ n ∈ (trackFut exX_P_P_P (trackRun exX_P_P_P exT0_P_P_P exTrace12_P_P_P).1
    (.retOutcome true [0, 2, 1, 3] [] [] "cont")).2, n.ok = true := by decide
/- the whole example trace is accepted, and is a run of the model from `init` to the returned state -/
theorem exTrace_ok_P_P_P : ∀ n ∈ (trackRun exX_P_P_P exT0_P_P_P exTrace_P_P_P).2, n.ok = true := by
  rw [exTrace_P_P_P, trackRun_append, trackRun_singleton]
  intro n hn
  rcases List.mem_append.mp hn with hn | hn
  · exact exTrace12_ok_P_P_P n hn
  · exact trackFut_retOutcome_accepts (x := exX_P_P_P) (errs := [2]) exTrace12_result_P_P_P rfl n hn
example : ∃ as, run exX_P_P_P.c (init exX_P_P_P.c) as = some (trackRun exX_P_P_P exT0_P_P_P exTrace_P_P_P).1.s ∧
    as.filter Action.isExternal = [.finish 0 true, .finish 1 true, .interrupt, .finish 2 false] :=
  track_sound (x := exX_P_P_P) rfl exTrace_ok_P_P_P
example : (trackRun exX_P_P_P exT0_P_P_P exTrace_P_P_P).1.s.result = some (.outcome false [0, 2, 1] [3] [2]) := by
  rw [exTrace_P_P_P, trackRun_append, trackRun_singleton]
  exact exTrace12_result_P_P_P
/- `track_retErr`: `try_fold` on the chain-free graph of two functions, `1` fails -/
def exXerr_P_P_P : MonCtx :=
  { c := { coopC_P with sequential := true, errMode := .shortCircuit }, decls := [], userD := ⟨2, []⟩,
    rev := false, control := false, interruptible := false, coop := false }
def exTraceErr_P_P_P : List Ev := [.handout 1, .invoke 1, .q, .fin 1 false]
set_option maxRecDepth 100000 in
example : (trackFut exXerr_P_P_P (trackRun exXerr_P_P_P { s := init exXerr_P_P_P.c } exTraceErr_P_P_P).1 (.retErr 1)).1.s.result
    = some (.err 1) :=
  (track_retErr (x := exXerr_P_P_P) (by decide)).1

/-! ### 5. the hand-out event -/

/-- an accepted hand-out event: `advanceUntil` found a state with a longer hand-out list, and the
    new part of that list is exactly `[f]`.  Holds in coop sessions as well. -/
theorem track_handout_gen {x : MonCtx} {t : TrackSt} {f : Nat}
    (hok : ∀ n ∈ (trackFut x t (.handout f)).2, n.ok = true) :
    (handoutAdv x t f).2 = true ∧
    (trackFut x t (.handout f)).1.s.handedOut = t.s.handedOut ++ [f] := by
  rw [trackFut_handout_notes] at hok
  rw [trackFut_handout_s]
  have h := Note.ok_cmp.mp (hok _ List.mem_cons_self)
  cases hb : (handoutAdv x t f).2 with
  | false =>
    rw [hb] at h
    exact absurd h (toString_nat_ne_noneEnabled f)
  | true =>
    rw [hb] at h
    simp only [if_true] at h
    have hd := natsText_eq_toString h
    have hp1 := handoutStart_handedOut_prefix x t f
    have hp2 : (handoutStart x t f).handedOut <+: (handoutAdv x t f).1.handedOut :=
      advanceUntil_handedOut_prefix _ _ _ _
    obtain ⟨r1, hr1⟩ := hp1
    obtain ⟨r2, hr2⟩ := hp2
    have hall : (handoutAdv x t f).1.handedOut = t.s.handedOut ++ (r1 ++ r2) := by
      rw [← hr2, ← hr1, List.append_assoc]
    rw [hall, List.drop_left] at hd
    exact ⟨rfl, by rw [hall, hd]⟩

/-- **5.** non-coop sessions: the monitor advanced from its own state `t.s`, and an accepted hand-out
    event `f` means the model's next hand-out (after internal actions only) is exactly `f`:
    `got = toString f` says `natsText (new part of handedOut) = toString f`, and `natsText`
    is injective, so the new part is `[f]`. -/
theorem track_handout {x : MonCtx} {t : TrackSt} {f : Nat} (hcoop : x.coop = false)
    (hok : ∀ n ∈ (trackFut x t (.handout f)).2, n.ok = true) :
    handoutStart x t f = t.s ∧
    (trackFut x t (.handout f)).1.s.handedOut = (handoutStart x t f).handedOut ++ [f] ∧
    (trackFut x t (.handout f)).1.s.handedOut = t.s.handedOut ++ [f] ∧
    (trackFut x t (.handout f)).1.realHandout = t.realHandout ++ [f] := by
  have h := (track_handout_gen hok).2
  refine ⟨handoutStart_noncoop hcoop t f, ?_, h, rfl⟩
  rw [handoutStart_noncoop hcoop]
  exact h

/- non-vacuity of 5.: the hand-outs `0` (from the initial state) and `1` (after 6 events) of the
   example trace; the model would hand out `2` first, so `handout 1` in its place is rejected -/
set_option maxRecDepth 100000 in
example : (trackFut exX_P_P_P exT0_P_P_P (.handout 0)).1.s.handedOut = [] ++ [0] :=
  (track_handout (x := exX_P_P_P) rfl (by decide)).2.2.1
set_option maxRecDepth 100000 in
example : (trackFut exX_P_P_P (trackRun exX_P_P_P exT0_P_P_P (exTrace12_P_P_P.take 6)).1 (.handout 1)).1.s.handedOut = [0, 2, 1] :=
  (track_handout (x := exX_P_P_P) rfl (by decide)).2.2.1.trans (by decide)
set_option maxRecDepth 100000 in
example : ¬ ∀ n ∈ (trackFut exX_P_P_P (trackRun exX_P_P_P exT0_P_P_P (exTrace12_P_P_P.take 4)).1 (.handout 1)).2, n.ok = true := by
  decide

end FG
