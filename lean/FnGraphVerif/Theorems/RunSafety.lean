/-
  Theorems/RunSafety.lean — property theorems about the run protocol that are safety
  properties: they hold in EVERY reachable state of `Proto`, i.e. for every graph (`GoodCfg`),
  every completion order, every poll order, every limit, every interrupt timing, every failing
  subset.  (C01 run half, C02, C03 at-most-once, C07, C09, C10; no panic for C04.)

  All theorems are static consequences of the invariant: of `Inv0` (inductive under `GoodCfg`
  alone) where that suffices, of `Inv` (needs `Cfg.ApiOk`: `shortCircuit` ⇒ `sequential`) for
  `return_no_inflight` and `shortCircuit_first_error`, whose original statements (without
  `ApiOk`) are refuted below by a concrete counterexample.
-/
import FnGraphVerif.Proofs.ProtoSafety
import Mathlib.Data.List.Perm.Lattice
namespace FG

variable {c : Cfg} {s : PState}

/-! ### concrete instances for the non-vacuity examples (diamond 0→1, 0→2, 1→3, 2→3) -/

/-- everything up to the hand-out of the sink 3 -/
def exT1_F : List Action :=
  [.schedPoll, .invoke 0, .finish 0 true, .queuerRecv, .schedPoll, .schedPoll, .invoke 2, .invoke 1,
   .finish 2 true, .finish 1 true, .queuerRecv, .queuerRecv, .schedPoll]
/-- a complete clean run -/
def exTFull_F : List Action :=
  exT1_F ++ [.invoke 3, .finish 3 true, .queuerRecv, .schedPoll, .schedEnd, .queuerEnd, .ret]

theorem exGood_F : GoodCfg exCfg_F := exCfg_good_F _ rfl rfl
def exCollect_F : Cfg := { exCfg_F with errMode := .collect }
theorem exCollect_good_F : GoodCfg exCollect_F := exCfg_good_F _ rfl rfl
def exLim1_F : Cfg := { exCfg_F with limit := some 1 }
theorem exLim1_good_F : GoodCfg exLim1_F := exCfg_good_F _ rfl rfl
def exShort_F : Cfg := { exCfg_F with errMode := .shortCircuit, sequential := true }
theorem exShort_good_F : GoodCfg exShort_F := exCfg_good_F _ rfl rfl

theorem ex_edge01 : IsEdge exDag_F 0 1 := ⟨⟨0, 1, .logic⟩, by simp [exDag_F], rfl, rfl⟩
theorem ex_edge02 : IsEdge exDag_F 0 2 := ⟨⟨0, 2, .logic⟩, by simp [exDag_F], rfl, rfl⟩
theorem ex_edge13 : IsEdge exDag_F 1 3 := ⟨⟨1, 3, .logic⟩, by simp [exDag_F], rfl, rfl⟩
theorem ex_edge23 : IsEdge exDag_F 2 3 := ⟨⟨2, 3, .data⟩, by simp [exDag_F], rfl, rfl⟩
theorem ex_reach03 : ReachP exDag_F 0 3 := .tail (.edge ex_edge01) ex_edge13

/-! ### ordering (C01, C02) -/

/-- **C02** (and the core of C01): whatever has been queued, handed out or swallowed has all its
    ancestors in the scheduling graph returned successfully. -/
theorem handout_after_ancestors (hc : GoodCfg c) (hr : Reachable c s) {u v : Nat}
    (hv : v ∈ s.readyQ ∨ v ∈ s.handedOut ∨ s.dropped = some v) (huv : ReachP c.D u v) :
    u ∈ s.endedOk := by
  have hinv := inv0_reachable hc hr
  induction huv with
  | edge he => exact hinv.doneEnded _ (Or.inl (hinv.ready _ hv _ (mem_parents.mpr he)))
  | tail _ he ih =>
    have hw := hinv.doneEnded _ (Or.inl (hinv.ready _ hv _ (mem_parents.mpr he)))
    exact ih (Or.inr (Or.inl (hinv.endedHanded _ (Or.inl hw))))

/-- non-vacuity: in the diamond the sink 3 is handed out in a reachable state, and the theorem
    yields that its ancestor 0 has ended -/
example : ∃ s, Reachable exCfg_F s ∧ 3 ∈ s.handedOut ∧ 0 ∈ s.endedOk := by
  obtain ⟨s, hr, hp⟩ := reachable_of_any (c := exCfg_F) (as := exT1_F)
    (p := fun s => decide (3 ∈ s.handedOut)) (by decide)
  have h3 : 3 ∈ s.handedOut := of_decide_eq_true hp
  exact ⟨s, hr, h3, handout_after_ancestors exGood_F hr (Or.inr (Or.inl h3)) ex_reach03⟩

/-- **C02**: a done id is only ever sent for a function that returned successfully. -/
theorem done_only_after_end (hc : GoodCfg c) (hr : Reachable c s) {x : Nat}
    (hx : x ∈ s.released ∨ x ∈ s.doneQ) : x ∈ s.endedOk ∧ x ∉ s.inflight := by
  have hinv := inv0_reachable hc hr
  exact ⟨hinv.doneEnded x hx, fun hi => (hinv.inflNotEnded x hi).1 (hinv.doneEnded x hx)⟩

example : ∃ s, Reachable exCfg_F s ∧ 0 ∈ s.doneQ ∧ 0 ∈ s.endedOk ∧ 0 ∉ s.inflight := by
  obtain ⟨s, hr, hp⟩ := reachable_of_any (c := exCfg_F) (as := exT1_F.take 3)
    (p := fun s => decide (0 ∈ s.doneQ)) (by decide)
  have h0 : 0 ∈ s.doneQ := of_decide_eq_true hp
  exact ⟨s, hr, h0, done_only_after_end exGood_F hr (Or.inr h0)⟩

/-- **C01** (run half): two functions ordered by the scheduling graph are never in flight together. -/
theorem no_ancestor_inflight (hc : GoodCfg c) (hr : Reachable c s) {u v : Nat}
    (hu : u ∈ s.inflight) (hv : v ∈ s.inflight) : ¬ ReachP c.D u v := by
  have hinv := inv0_reachable hc hr
  intro huv
  exact (hinv.inflNotEnded u hu).1
    (handout_after_ancestors hc hr (Or.inr (Or.inl (hinv.inflHanded v hv))) huv)

/-- non-vacuity: the two middle functions of the diamond ARE in flight together -/
example : ∃ s, Reachable exCfg_F s ∧ 2 ∈ s.inflight ∧ 1 ∈ s.inflight ∧ ¬ ReachP exCfg_F.D 2 1 := by
  obtain ⟨s, hr, hp⟩ := reachable_of_any (c := exCfg_F) (as := exT1_F.take 6)
    (p := fun s => decide (2 ∈ s.inflight) && decide (1 ∈ s.inflight)) (by decide)
  simp only [Bool.and_eq_true, decide_eq_true_eq] at hp
  exact ⟨s, hr, hp.1, hp.2, no_ancestor_inflight exGood_F hr hp.1 hp.2⟩

/-- **C01**: if the scheduling graph orders every conflicting pair (what `build` guarantees, C11),
    no two conflicting functions are in flight together. -/
theorem no_conflict_inflight (hc : GoodCfg c) (hr : Reachable c s) (decls : List FnDecl)
    (hord : ∀ u v, u < c.n → v < c.n → u ≠ v → conflict (declOf decls u) (declOf decls v) = true →
      ReachP c.D u v ∨ ReachP c.D v u)
    {u v : Nat} (hu : u ∈ s.inflight) (hv : v ∈ s.inflight) (hne : u ≠ v) :
    conflict (declOf decls u) (declOf decls v) = false := by
  have hinv := inv0_reachable hc hr
  cases hcf : conflict (declOf decls u) (declOf decls v) with
  | false => rfl
  | true =>
    exfalso
    rcases hord u v (hinv.handed_lt (hinv.inflHanded u hu)) (hinv.handed_lt (hinv.inflHanded v hv)) hne hcf
      with h | h
    · exact no_ancestor_inflight hc hr hu hv h
    · exact no_ancestor_inflight hc hr hv hu h

/-- declarations for the diamond: 0 and 3 write resource 7, 1 and 2 read it -/
def exDecls_F : List FnDecl := [⟨[], [7], 0⟩, ⟨[7], [], 1⟩, ⟨[7], [], 2⟩, ⟨[], [7], 3⟩]

theorem exDecls_ordered_F : ∀ u v, u < exCfg_F.n → v < exCfg_F.n → u ≠ v →
    conflict (declOf exDecls_F u) (declOf exDecls_F v) = true → ReachP exCfg_F.D u v ∨ ReachP exCfg_F.D v u := by
  have hpairs : ∀ p ∈ [(0, 1), (0, 2), (0, 3), (1, 3), (2, 3)], ReachP exDag_F p.1 p.2 := by
    intro p hp
    simp only [List.mem_cons, List.not_mem_nil, or_false] at hp
    rcases hp with rfl | rfl | rfl | rfl | rfl
    · exact .edge ex_edge01
    · exact .edge ex_edge02
    · exact ex_reach03
    · exact .edge ex_edge13
    · exact .edge ex_edge23
  have hdec : ∀ u ∈ List.range 4, ∀ v ∈ List.range 4, u ≠ v → conflict (declOf exDecls_F u) (declOf exDecls_F v) = true →
      ((u, v) ∈ [(0, 1), (0, 2), (0, 3), (1, 3), (2, 3)] ∨ (v, u) ∈ [(0, 1), (0, 2), (0, 3), (1, 3), (2, 3)]) := by
    decide
  intro u v hu hv hne hcf
  rcases hdec u (List.mem_range.mpr hu) v (List.mem_range.mpr hv) hne hcf with h | h
  · exact Or.inl (hpairs _ h)
  · exact Or.inr (hpairs _ h)

/-- non-vacuity: the hypothesis holds for the diamond with real conflicts (0–1, 0–2, 0–3, 1–3, 2–3),
    and the readers 1 and 2 are in flight together -/
example : ∃ s, Reachable exCfg_F s ∧ 2 ∈ s.inflight ∧ 1 ∈ s.inflight ∧
    conflict (declOf exDecls_F 2) (declOf exDecls_F 1) = false := by
  obtain ⟨s, hr, hp⟩ := reachable_of_any (c := exCfg_F) (as := exT1_F.take 6)
    (p := fun s => decide (2 ∈ s.inflight) && decide (1 ∈ s.inflight)) (by decide)
  simp only [Bool.and_eq_true, decide_eq_true_eq] at hp
  exact ⟨s, hr, hp.1, hp.2, no_conflict_inflight exGood_F hr exDecls_F exDecls_ordered_F hp.1 hp.2 (by decide)⟩

/-! ### at most once, no panic, channel bounds (C03, C04) -/

/-- **C03**: nothing is queued or handed out twice. -/
theorem handout_nodup (hc : GoodCfg c) (hr : Reachable c s) :
    (s.readyQ ++ s.handedOut ++ s.dropped.toList).Nodup :=
  (inv0_reachable hc hr).queueNodup

/-- **C03**: the closure is invoked at most once per function, and only for handed-out functions. -/
theorem invoked_nodup (hc : GoodCfg c) (hr : Reachable c s) :
    s.invoked.Nodup ∧ ∀ f ∈ s.invoked, f ∈ s.handedOut :=
  ⟨(inv0_reachable hc hr).invNodup, (inv0_reachable hc hr).invHanded⟩

/-- **C03 / C04**: no `expect`, `usize` underflow, `try_write` failure, full channel. -/
theorem no_panic (hc : GoodCfg c) (hr : Reachable c s) : s.panic = false :=
  (inv0_reachable hc hr).noPanic

/-- **C03**: the ready and done channels never fill (capacity `max(1, n)` suffices). -/
theorem channels_never_full (hc : GoodCfg c) (hr : Reachable c s) :
    s.readyQ.length ≤ c.cap ∧ s.doneQ.length ≤ c.cap ∧ s.errors.length ≤ c.cap := by
  have hinv := inv0_reachable hc hr
  have hcap := cap_ge c
  have h1 := hinv.queue_len
  have h2 := hinv.rel_len
  refine ⟨by omega, by omega, ?_⟩
  rw [hinv.errs]
  split
  · have := nodup_bounded_length hinv.failed_nodup (n := c.n)
      (fun x hx => hinv.ended_lt (List.mem_append.mpr (Or.inr hx)))
    omega
  · simp

/-- non-vacuity: a reachable state of the diamond in which all four functions were handed out and
    three invoked; the four theorems above apply to it -/
example : ∃ s, Reachable exCfg_F s ∧ s.handedOut = [0, 2, 1, 3] ∧ s.invoked = [0, 2, 1] ∧
    (s.readyQ ++ s.handedOut ++ s.dropped.toList).Nodup ∧ s.invoked.Nodup ∧ s.panic = false ∧
    s.readyQ.length ≤ 4 := by
  obtain ⟨s, hr, hp⟩ := reachable_of_any (c := exCfg_F) (as := exT1_F)
    (p := fun s => s.handedOut == [0, 2, 1, 3] && s.invoked == [0, 2, 1]) (by decide)
  simp only [Bool.and_eq_true, beq_iff_eq] at hp
  exact ⟨s, hr, hp.1, hp.2, handout_nodup exGood_F hr, (invoked_nodup exGood_F hr).1, no_panic exGood_F hr,
    (channels_never_full exGood_F hr).1⟩

/-! ### limit (C10) -/

/-- **C10**: at most `limit` functions in flight (`fold*`: at most one). -/
theorem inflight_le_limit (hc : GoodCfg c) (hr : Reachable c s) :
    (c.sequential = true → s.inflight.length ≤ 1) ∧
    (c.sequential = false → ∀ l, c.limit = some (l + 1) → s.inflight.length ≤ l + 1) :=
  ⟨(inv0_reachable hc hr).limSeq, (inv0_reachable hc hr).limPar⟩

/-- non-vacuity: with `limit = 1` the diamond reaches a state where 1 is ready, 2 in flight, and the
    scheduler may not poll (a further `schedPoll` is disabled) -/
example : ∃ s, Reachable exLim1_F s ∧ s.readyQ = [1] ∧ s.inflight = [2] ∧ s.inflight.length ≤ 1 ∧
    step? exLim1_F s .schedPoll = none := by
  obtain ⟨s, hr, hp⟩ := reachable_of_any (c := exLim1_F) (as := exT1_F.take 5)
    (p := fun s => s.readyQ == [1] && s.inflight == [2] && (step? exLim1_F s .schedPoll).isNone) (by decide)
  simp only [Bool.and_eq_true, beq_iff_eq, Option.isNone_iff_eq_none] at hp
  exact ⟨s, hr, hp.1.1, hp.1.2, (inflight_le_limit exLim1_good_F hr).2 rfl 0 rfl, hp.2⟩

/-! ### failures (C07) -/

/-- **C07**: one error per failed function, none lost, none duplicated. -/
theorem errors_exact (hc : GoodCfg c) (hr : Reachable c s) (hm : c.errMode = .collect) :
    s.errors = s.failed ∧ s.failed.Nodup := by
  have hinv := inv0_reachable hc hr
  refine ⟨?_, hinv.failed_nodup⟩
  have := hinv.errs
  rwa [if_pos hm] at this

/-- **C07**: nothing ordered after a failed function is ever queued or handed out. -/
theorem no_successor_of_failed (hc : GoodCfg c) (hr : Reachable c s) {f v : Nat}
    (hf : f ∈ s.failed) (hfv : ReachP c.D f v) : v ∉ s.handedOut ∧ v ∉ s.readyQ := by
  have hinv := inv0_reachable hc hr
  have key : ∀ hv : (v ∈ s.readyQ ∨ v ∈ s.handedOut ∨ s.dropped = some v), False := by
    intro hv
    have he := handout_after_ancestors hc hr hv hfv
    exact (List.nodup_append.mp hinv.endNodup).2.2 f he f hf rfl
  exact ⟨fun h => key (Or.inr (Or.inl h)), fun h => key (Or.inl h)⟩

/-- non-vacuity: the root of the diamond fails in `collect` mode -/
example : ∃ s, Reachable exCollect_F s ∧ s.failed = [0] ∧ s.errors = s.failed ∧ 3 ∉ s.handedOut := by
  obtain ⟨s, hr, hp⟩ := reachable_of_any (c := exCollect_F) (as := [.schedPoll, .invoke 0, .finish 0 false])
    (p := fun s => s.failed == [0]) (by decide)
  simp only [beq_iff_eq] at hp
  exact ⟨s, hr, hp, (errors_exact exCollect_good_F hr rfl).1,
    (no_successor_of_failed exCollect_good_F hr (by rw [hp]; simp) ex_reach03).1⟩

/-! ### return (C04, C07, C09) -/

/-- ORIGINAL STATEMENT (false without `hapi`, refuted below):
    `theorem return_no_inflight (hc : GoodCfg c) (hr : Reachable c s) (h : s.result.isSome = true) : s.inflight = []`

    **C04 / C07**: when the call has returned nothing is in flight.
    Side condition added: `hapi : c.ApiOk` (`shortCircuit` ⇒ `sequential`, true of every real API). -/
theorem return_no_inflight (hc : GoodCfg c) (hapi : c.ApiOk) (hr : Reachable c s)
    (h : s.result.isSome = true) : s.inflight = [] := by
  have hinv := inv_reachable hc hapi hr
  obtain ⟨r, hres⟩ := Option.isSome_iff_exists.mp h
  exact hinv.sDoneInfl (hinv.retFrozen r hres).2.1

/-- the original statement is false: `cxCfg_F` (short-circuiting, not sequential) returns `Err 1`
    while function 0 is in flight -/
theorem return_no_inflight_original_false :
    ¬ (∀ (c : Cfg) (s : PState), GoodCfg c → Reachable c s → s.result.isSome = true → s.inflight = []) := by
  intro h
  obtain ⟨s, hr, _, hres, hi⟩ := cx_reachable
  have := h cxCfg_F s cxCfg_good_F hr (by rw [hres]; rfl)
  rw [hi] at this; cases this

/-- without `ApiOk` the weaker fact still holds: a call that returned an OUTCOME (not a
    short-circuit error) has nothing in flight -/
theorem return_no_inflight_partial (hc : GoodCfg c) (hr : Reachable c s) {fin : Bool} {p np errs : List Nat}
    (h : s.result = some (.outcome fin p np errs)) : s.inflight = [] := by
  have hinv := inv0_reachable hc hr
  obtain ⟨h1, _, _, h4⟩ := hinv.ret0 _ h
  exact hinv.sDoneInfl0 h1 (h4 _ _ _ _ rfl)

/-- non-vacuity: the complete clean run of the diamond returns -/
example : ∃ s, Reachable exCfg_F s ∧ s.result.isSome = true ∧ s.inflight = [] := by
  obtain ⟨s, hr, hp⟩ := reachable_of_any (c := exCfg_F) (as := exTFull_F)
    (p := fun s => s.result.isSome) (by decide)
  exact ⟨s, hr, hp, return_no_inflight exGood_F (by unfold Cfg.ApiOk; decide) hr hp⟩

/-- ORIGINAL STATEMENT (false without `hapi`, refuted below): the same without `hapi`.

    **C07**: `try_fold_async*` returns the first error, and no function is handed out after it
    (the scheduler is finished, so `schedPoll` is disabled for good).
    Side condition added: `hapi : c.ApiOk`. -/
theorem shortCircuit_first_error (hc : GoodCfg c) (hapi : c.ApiOk) (hr : Reachable c s) {f : Nat}
    (hf : s.shortErr = some f) :
    c.errMode = .shortCircuit ∧ s.failed = [f] ∧ s.sDone = true ∧ step? c s .schedPoll = none ∧
    (∀ r, s.result = some r → r = .err f) := by
  have hinv := inv_reachable hc hapi hr
  have hsome : s.shortErr.isSome = true := by rw [hf]; rfl
  have hm := hinv.shortOnly hsome
  have hsd := hinv.shortDone hsome
  refine ⟨hm, ?_, hsd, ?_, ?_⟩
  · have := hinv.short hm; rw [hf] at this; exact this
  · simp [step?, hsd]
  · intro r hres
    have := (hinv.retFrozen r hres).1
    rw [this]; unfold mkRet; rw [hf]

/-- the original statement is false: in `cxCfg_F` the second in-flight function fails after the
    call returned `Err 1`; then `shortErr = some 0` but two functions failed and `Err 1` was returned -/
theorem shortCircuit_first_error_original_false :
    ¬ (∀ (c : Cfg) (s : PState) (f : Nat), GoodCfg c → Reachable c s → s.shortErr = some f →
        c.errMode = .shortCircuit ∧ s.failed = [f] ∧ s.sDone = true ∧ step? c s .schedPoll = none ∧
        (∀ r, s.result = some r → r = .err f)) := by
  intro h
  obtain ⟨s, hr, hp⟩ := reachable_of_any (c := cxCfg_F) (as := cxTrace_F ++ [.finish 0 false])
    (p := fun s => s.shortErr == some 0 && s.failed == [1, 0]) (by decide)
  simp only [Bool.and_eq_true, beq_iff_eq] at hp
  have := (h cxCfg_F s 0 cxCfg_good_F hr hp.1).2.1
  rw [hp.2] at this; cases this

/-- without `ApiOk` this much remains: a short-circuit error only occurs in `shortCircuit` mode and
    finishes the scheduler for good -/
theorem shortCircuit_first_error_partial (hc : GoodCfg c) (hr : Reachable c s) {f : Nat}
    (hf : s.shortErr = some f) :
    c.errMode = .shortCircuit ∧ s.sDone = true ∧ step? c s .schedPoll = none := by
  have hinv := inv0_reachable hc hr
  have hsome : s.shortErr.isSome = true := by rw [hf]; rfl
  have hsd := hinv.shortDone hsome
  exact ⟨hinv.shortOnly hsome, hsd, by simp [step?, hsd]⟩

/-- non-vacuity: `try_fold` on the diamond, the root fails, the call returns `Err 0` -/
example : ∃ s, Reachable exShort_F s ∧ s.shortErr = some 0 ∧ s.result = some (.err 0) ∧ s.failed = [0] := by
  obtain ⟨s, hr, hp⟩ := reachable_of_any (c := exShort_F)
    (as := [.schedPoll, .invoke 0, .finish 0 false, .queuerEnd, .ret])
    (p := fun s => s.shortErr == some 0 && s.result == some (.err 0)) (by decide)
  simp only [Bool.and_eq_true, beq_iff_eq] at hp
  exact ⟨s, hr, hp.1, hp.2,
    (shortCircuit_first_error exShort_good_F (fun _ => rfl) hr hp.1).2.1⟩

/-- **C09** — proved AS ORIGINALLY STATED (no `ApiOk` needed): the returned outcome lists exactly
    the hand-outs in hand-out order, the complement in insertion order, `Finished` iff everything was
    handed out; every handed-out function was invoked. -/
theorem outcome_exact_strong (hc : GoodCfg c) (hr : Reachable c s) {fin : Bool} {p np errs : List Nat}
    (h : s.result = some (.outcome fin p np errs)) :
    p = s.handedOut ∧ np = (List.range c.n).filter (fun v => decide (v ∉ s.handedOut)) ∧
    errs = s.errors ∧ (fin = true ↔ s.handedOut.Perm (List.range c.n)) ∧
    (∀ f ∈ s.handedOut, f ∈ s.invoked) := by
  have hinv := inv0_reachable hc hr
  obtain ⟨hsd, _, h3, h4⟩ := hinv.ret0 _ h
  have hse : s.shortErr = none := h4 _ _ _ _ rfl
  have hinfl : s.inflight = [] := hinv.sDoneInfl0 hsd hse
  have hr' := h3 hse
  unfold mkRet at hr'
  rw [hse] at hr'
  simp only [Ret.outcome.injEq] at hr'
  obtain ⟨hfin, hp, hnp, herr⟩ := hr'
  -- the hand-outs are exactly the ended functions
  have hhn : s.handedOut.Nodup := by
    have := (List.nodup_append.mp hinv.queueNodup).1
    exact (List.nodup_append.mp this).2.1
  have hended : ∀ f ∈ s.handedOut, f ∈ s.endedOk ∨ f ∈ s.failed := by
    intro f hf
    rcases hinv.handedSplit f hf with h | h
    · rw [hinfl] at h; cases h
    · exact h
  have hperm : s.handedOut.Perm (s.endedOk ++ s.failed) := by
    rw [List.perm_ext_iff_of_nodup hhn hinv.endNodup]
    intro a
    constructor
    · intro ha; exact List.mem_append.mpr (hended a ha)
    · intro ha; exact hinv.endedHanded a (List.mem_append.mp ha)
  have hlen : s.sRemaining + s.handedOut.length = c.n := by
    have h1 := hperm.length_eq
    have h2 := hinv.sRem
    simp only [List.length_append] at h1
    by_cases hm : c.errMode = .collect
    · rw [if_pos hm] at h2; omega
    · rw [if_neg hm] at h2
      have hf0 : s.failed = [] := by
        cases hmode : c.errMode with
        | none => exact hinv.failedMode hmode
        | collect => exact absurd hmode hm
        | shortCircuit => exact hinv.short0 hmode hse
      rw [hf0] at h1; simp only [List.length_nil] at h1; omega
  refine ⟨hp, hnp, herr, ?_, ?_⟩
  · rw [hfin, beq_iff_eq]
    constructor
    · intro h0
      have hsub : s.handedOut ⊆ List.range c.n := fun x hx => List.mem_range.mpr (hinv.handed_lt hx)
      exact (List.Nodup.subperm hhn hsub).perm_of_length_le (by simp only [List.length_range]; omega)
    · intro hpm
      have := hpm.length_eq
      simp only [List.length_range] at this
      omega
  · intro f hf
    exact hinv.endedInvoked f (hended f hf)

/-- **C09** with the argument convention of the other `ApiOk` theorems (`hapi` is not used) -/
theorem outcome_exact (hc : GoodCfg c) (_hapi : c.ApiOk) (hr : Reachable c s) {fin : Bool} {p np errs : List Nat}
    (h : s.result = some (.outcome fin p np errs)) :
    p = s.handedOut ∧ np = (List.range c.n).filter (fun v => decide (v ∉ s.handedOut)) ∧
    errs = s.errors ∧ (fin = true ↔ s.handedOut.Perm (List.range c.n)) ∧
    (∀ f ∈ s.handedOut, f ∈ s.invoked) :=
  outcome_exact_strong hc hr h

/-- non-vacuity: the clean run of the diamond returns `Finished` with hand-out order `[0,2,1,3]` -/
example : ∃ s, Reachable exCfg_F s ∧ s.result = some (.outcome true [0, 2, 1, 3] [] []) ∧
    s.handedOut = [0, 2, 1, 3] ∧ s.handedOut.Perm (List.range 4) := by
  obtain ⟨s, hr, hp⟩ := reachable_of_any (c := exCfg_F) (as := exTFull_F)
    (p := fun s => s.result == some (.outcome true [0, 2, 1, 3] [] [])) (by decide)
  simp only [beq_iff_eq] at hp
  obtain ⟨h1, _, _, h4, _⟩ := outcome_exact_strong exGood_F hr hp
  exact ⟨s, hr, hp, h1.symm, h4.mp rfl⟩

/-- **C09** (control variants): `Continue` iff `Finished` and nothing broke. -/
theorem control_continue_iff (fin : Bool) (p np errs : List Nat) :
    (Ret.outcome fin p np errs).isBreak = false ↔ (fin = true ∧ errs = []) := by
  cases fin <;> cases errs <;> simp [Ret.isBreak]

example : (Ret.outcome true [0, 2, 1, 3] [] []).isBreak = false ∧
    (Ret.outcome false [0] [1, 2, 3] []).isBreak = true ∧ (Ret.outcome true [0] [] [0]).isBreak = true := by
  decide

end FG
