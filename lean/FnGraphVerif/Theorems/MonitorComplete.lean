/-
  Theorems/MonitorComplete.lean — MONITOR COMPLETENESS: the tracking monitor (`trackFut` /
  `trackRun`, non-coop sessions) raises NO FALSE ALARM on behaviour the model allows — under two
  side conditions on the observable run, both necessary (`track_complete`).

  STEP 1, exhaustive search (`Proofs/SSearch.lean`; product of the model and the monitor state over
  every `ObsRun` of 15 graphs with ≤ 3 nodes × 240 configurations, 6.3 million product states, `q` at
  every quiescent non-returned state, `interrupt` at every quiet point; four 4-node graphs for
  `IgnoreInterruptions` / `PollNextN(1,2)`): the monitor REJECTS runs of the model in exactly two ways.

  (a) `R-quiesce … invoked` — closures started in an order different from the hand-out order
      (`handout 2, handout 1, invoke 1, invoke 2, q`): the monitor compares the LIST `invoked` of its own
      (hand-out ordered) replay with the observed start order.  Excluded by `RunOk evs` (the side
      condition of `Theorems/TracePreds.lean`).  The monitor is stricter than the model; a real executor
      starts the closure inside the hand-out (`for_each_concurrent` calls `f(item)` at once), so no
      false alarm in practice.  `cxA_*` below.
  (b) `R-step handout … none-enabled` — an `intr` that is neither sent directly after a `q` nor the very
      first event, strategies `FinishCurrent` and `PollNextN(0)` only: whether the interruptible stream had
      been polled to `Pending` before the signal (`has_pending`) decides between `Interrupted(Some item)`
      and `Interrupted(None)`; that poll shows no event, and the lazy monitor has not performed it (it
      only `settle`s at `q`).  Excluded by `IntrAtQ`.  The monitor is stricter than the model, AND the
      event order is one a real single-task executor produces whenever the signal is not preceded by a
      `q` in the log: `cxB_*` (signal at a quiescent point, no `q` event logged) and `cxB2_*` (signal sent
      from inside a completing future — the harness's `intr_on_end` — with `limit 2` and two completions
      in one poll round: `for_each_concurrent` polls the stream to `Pending` between them) — a potential
      FALSE ALARM of the checker.  No rejection of this kind was found for `NonInterruptible`,
      `IgnoreInterruptions`, `PollNextN(k ≥ 1)` (the first poll after the signal is never counted, with or
      without `has_pending`), so for these `IntrAtQ` is sufficient but probably not necessary.
  (c) `q` events at quiescent states off the monitor's eager path: NO rejection — confluence.
  With `RunOk` and `IntrAtQ` there is not a single rejection in the whole search space.

  STEP 2.  `track_complete` is proved as stated with `hside : TrackSide x evs` :=
  `RunOk evs ∧ (strat = NonInterruptible ∨ IntrAtQ x evs)`.  `IntrAtQ`: every `intr` directly follows a
  `q`, or is the first event of a run on a non-empty graph.  (Slightly stronger than what the search
  needs: two signals in a row, or a first-event signal on the empty graph, are not covered.)
  `track_complete_partial`: without `RunOk` every note except `R-quiesce "q invoked"` is still ok;
  `track_complete_facet`: the facets `R-step` and `R-outcome` never need `RunOk`.
  Proof: coupling `Cpl` (`Proofs/SCoupling.lean`) = the real state and the monitor state have a common
  reduct by core actions modulo `SimC` (`JoinC`; an equivalence by `Theorems/Confluence.lean`), equal
  `handedOut` / `inflight`, and the monitor invokes in hand-out order (`FifoInv`).
  * internal actions of either side stay in the `JoinC` class (confluence);
  * `finish` commutes with every core action (`Proofs/SCommute.lean`, `SCommuteC.lean`) — except with a
    poll that closes the done channel (`Interrupted(None)` / swallowed item): there the two orders
    differ in whether the completion is still reported to the queuer, which is invisible from then on;
    `SimC` (`Proofs/SStar.lean`) forgets the queuer's private data in such closed states;
  * `interrupt` does NOT commute with `schedPoll` (rejection class (b)); it is only applied when both
    states are quiescent and `SimC`-equal (`Synced`), which `IntrAtQ` guarantees.
-/
import FnGraphVerif.Proofs.SMain
import FnGraphVerif.Theorems.TracePreds
namespace FG

/-- every `intr` comes directly after a `q` — or is the very first event of a run on a non-empty
    graph (a signal that is already pending when the call begins) -/
def IntrAtQ (x : MonCtx) (evs : List Ev) : Prop := intrAtQFrom (decide (x.c.n ≠ 0)) evs

instance (x : MonCtx) (evs : List Ev) : Decidable (IntrAtQ x evs) := by unfold IntrAtQ; infer_instance

/-- the side condition under which completeness is proved: closures are started in hand-out order,
    and interrupt signals are sent directly after a `q` observation (or first of all) — unless the
    stream is `NonInterruptible`, where signals may come at any time -/
structure TrackSide (x : MonCtx) (evs : List Ev) : Prop where
  fifo : RunOk evs
  intr : x.c.strat = .non ∨ IntrAtQ x evs

/-- ORIGINAL STATEMENT (false without a side condition, `track_complete_original_false`):
    `theorem track_complete {x : MonCtx} (hx : GoodCtx x) (hcoop : x.coop = false) {evs : List Ev} {s : PState}
       (h : ObsRun x (init x.c) evs s) : ∀ n ∈ (trackRun x { s := init x.c } evs).2, n.ok = true`

    **Monitor completeness**: no false alarm on a run of the model that starts closures in hand-out
    order and whose interrupt signals are sent directly after a `q` (or first of all; any time for
    `NonInterruptible`).  Side condition added: `hside : TrackSide x evs`. -/
theorem track_complete {x : MonCtx} (hx : GoodCtx x) (hcoop : x.coop = false) {evs : List Ev}
    {s : PState} (h : ObsRun x (init x.c) evs s) (hside : TrackSide x evs) :
    ∀ n ∈ (trackRun x { s := init x.c } evs).2, n.ok = true := by
  intro n hn
  refine (track_gen hx hcoop h _ (decide (x.c.n ≠ 0)) (cpl_init x) ?_ hside.intr n hn).1 ⟨?_, ?_⟩
  · intro hb
    exact ⟨SimC.refl _, quiet_init hx (by simpa using hb)⟩
  · unfold FifoT
    simpa using hside.fifo.invokeFifo
  · simp [FifoInv, init]

/-- without `RunOk`: every note is ok except possibly `R-quiesce "q invoked"` — the start ORDER of the
    closures is the only thing the monitor checks beyond what the model fixes -/
theorem track_complete_partial {x : MonCtx} (hx : GoodCtx x) (hcoop : x.coop = false) {evs : List Ev}
    {s : PState} (h : ObsRun x (init x.c) evs s) (hintr : x.c.strat = .non ∨ IntrAtQ x evs) :
    ∀ n ∈ (trackRun x { s := init x.c } evs).2, n.ok = true ∨ n.isQInvoked := by
  intro n hn
  refine (track_gen hx hcoop h _ (decide (x.c.n ≠ 0)) (cpl_init x) ?_ hintr n hn).2
  intro hb
  exact ⟨SimC.refl _, quiet_init hx (by simpa using hb)⟩

/-- facet by facet: `R-step` and `R-outcome` never raise a false alarm (no `RunOk` needed) -/
def Note.facet : Note → String
  | .cmp f _ _ _ => f
  | .prop _ _ _ => ""

theorem track_complete_facet {x : MonCtx} (hx : GoodCtx x) (hcoop : x.coop = false) {evs : List Ev}
    {s : PState} (h : ObsRun x (init x.c) evs s) (hintr : x.c.strat = .non ∨ IntrAtQ x evs)
    (fc : String) (hfc : fc ≠ "R-quiesce") :
    ∀ n ∈ (trackRun x { s := init x.c } evs).2, n.facet = fc → n.ok = true := by
  intro n hn hf
  rcases track_complete_partial hx hcoop h hintr n hn with h1 | h1
  · exact h1
  · exfalso
    cases n with
    | prop => exact h1
    | cmp f w m i =>
      simp only [Note.facet] at hf
      exact hfc (hf ▸ h1.1)

/-! ### the side conditions cannot be dropped: kernel-checked rejections of runs of the model -/

/-- (a) diamond, clean run; `2` and `1` are handed out in this order and started in the other -/
def cxA_schedule : List OA :=
  [.act .schedPoll, .act (.invoke 0), .act (.finish 0 true), .act .queuerRecv, .act .schedPoll,
   .act .schedPoll, .act (.invoke 1), .act (.invoke 2), .act .schedPoll, .q]

def cxA_events : List Ev :=
  [.handout 0, .invoke 0, .fin 0 true, .handout 2, .handout 1, .invoke 1, .invoke 2, .q]

set_option maxRecDepth 100000 in
theorem cxA_obsRun : ∃ s, ObsRun (xDiamond exCfg_F) (init exCfg_F) cxA_events s :=
  obsRun_of_obsEvents' (l := cxA_schedule) (by decide)

set_option maxRecDepth 100000 in
/-- the monitor rejects it: exactly one note fails, `R-quiesce … invoked` (model `0,2,1`, observed `0,1,2`) -/
theorem cxA_rejected :
    (trackRun (xDiamond exCfg_F) { s := init exCfg_F } cxA_events).2.filter (fun n => !n.ok) =
      [.cmp "R-quiesce" "q invoked" "0,2,1" "0,1,2"] := by decide

/-- the run violates `RunOk` and nothing else (no interrupt at all) -/
theorem cxA_side : ¬ RunOk cxA_events ∧ IntrAtQ (xDiamond exCfg_F) cxA_events :=
  ⟨fun h => absurd h.invokeFifo (by decide), by decide⟩

/-- `track_complete_partial` applied to this run: its other 11 notes are ok -/
example : ∀ n ∈ (trackRun (xDiamond exCfg_F) { s := init exCfg_F } cxA_events).2, n.ok = true ∨ n.isQInvoked := by
  obtain ⟨s, hs⟩ := cxA_obsRun
  exact track_complete_partial (xDiamond_good exCfg_F rfl rfl (by intro h; cases h)) rfl hs (Or.inl rfl)

/-- (b) `FinishCurrent`: the scheduler has polled the stream to `Pending` (no event), then the signal
    arrives (the state is quiescent, but no `q` is in the log), `0` completes and `2` is handed out as
    `Interrupted(Some 2)`.  The monitor has not performed the `Pending` poll and expects
    `Interrupted(None)`. -/
def cxB_cfg : Cfg := { exCfg_F with strat := .finish }

def cxB_schedule : List OA :=
  [.act .schedPoll, .act (.invoke 0), .act .schedPoll, .act .interrupt, .act (.finish 0 true),
   .act .queuerRecv, .act .schedPoll]

def cxB_events : List Ev := [.handout 0, .invoke 0, .intr, .fin 0 true, .handout 2]

set_option maxRecDepth 100000 in
theorem cxB_obsRun : ∃ s, ObsRun (xDiamond cxB_cfg) (init cxB_cfg) cxB_events s :=
  obsRun_of_obsEvents' (l := cxB_schedule) (by decide)

set_option maxRecDepth 100000 in
theorem cxB_rejected :
    (trackRun (xDiamond cxB_cfg) { s := init cxB_cfg } cxB_events).2.filter (fun n => !n.ok) =
      [.cmp "R-step" "handout 2" "none-enabled" "2"] := by decide

set_option maxRecDepth 100000 in
/-- the signal was sent at a quiescent point of the real run -/
theorem cxB_quiescent :
    ((run cxB_cfg (init cxB_cfg) [.schedPoll, .invoke 0, .schedPoll]).map
      (fun s => decide (Quiescent cxB_cfg s))) = some true := by decide

theorem cxB_side : RunOk cxB_events ∧ ¬ IntrAtQ (xDiamond cxB_cfg) cxB_events := ⟨⟨by decide⟩, by decide⟩

/-- with the `q` observation in the log the same run is accepted -/
def cxB_events_q : List Ev := [.handout 0, .invoke 0, .q, .intr, .fin 0 true, .handout 2]

set_option maxRecDepth 100000 in
example : ∀ n ∈ (trackRun (xDiamond cxB_cfg) { s := init cxB_cfg } cxB_events_q).2, n.ok = true := by decide

/-- (b2) `FinishCurrent`, `limit 2`: `2` and `1` are in flight (the scheduler is at its limit and does not
    poll the stream: `has_pending = false` at the second `q`).  Both complete in one poll round; the
    executor polls the stream to `Pending` after the first completion; the signal is sent from inside the
    second completing future.  `3` is then handed out as `Interrupted(Some 3)`; the monitor, which went
    from `fin 2` to `fin 1` without polling, expects `Interrupted(None)`. -/
def cxB2_cfg : Cfg := { exCfg_F with strat := .finish, limit := some 2 }

def cxB2_schedule : List OA :=
  [.act .schedPoll, .act (.invoke 0), .act .schedPoll, .q, .act (.finish 0 true), .act .queuerRecv,
   .act .schedPoll, .act (.invoke 2), .act .schedPoll, .act (.invoke 1), .q,
   .act (.finish 2 true), .act .schedPoll, .act (.finish 1 true), .act .interrupt,
   .act .queuerRecv, .act .queuerRecv, .act .schedPoll]

def cxB2_events : List Ev :=
  [.handout 0, .invoke 0, .q, .fin 0 true, .handout 2, .invoke 2, .handout 1, .invoke 1, .q,
   .fin 2 true, .fin 1 true, .intr, .handout 3]

set_option maxRecDepth 100000 in
theorem cxB2_obsRun : ∃ s, ObsRun (xDiamond cxB2_cfg) (init cxB2_cfg) cxB2_events s :=
  obsRun_of_obsEvents' (l := cxB2_schedule) (by decide)

set_option maxRecDepth 100000 in
theorem cxB2_rejected :
    (trackRun (xDiamond cxB2_cfg) { s := init cxB2_cfg } cxB2_events).2.filter (fun n => !n.ok) =
      [.cmp "R-step" "handout 3" "none-enabled" "3"] := by decide

theorem cxB2_side : RunOk cxB2_events ∧ ¬ IntrAtQ (xDiamond cxB2_cfg) cxB2_events := ⟨⟨by decide⟩, by decide⟩

/-- **the statement without a side condition is false**, and so is each half of `TrackSide` alone -/
theorem track_complete_original_false :
    ¬ (∀ (x : MonCtx), GoodCtx x → x.coop = false → ∀ (evs : List Ev) (s : PState),
        ObsRun x (init x.c) evs s → ∀ n ∈ (trackRun x { s := init x.c } evs).2, n.ok = true) := by
  intro h
  obtain ⟨s, hs⟩ := cxA_obsRun
  have hall := h _ (xDiamond_good exCfg_F rfl rfl (by intro h; cases h)) rfl _ s hs
  have hnil : (trackRun (xDiamond exCfg_F) { s := init exCfg_F } cxA_events).2.filter (fun n => !n.ok) = [] := by
    rw [List.filter_eq_nil_iff]
    intro n hn
    simp [hall n hn]
  rw [cxA_rejected] at hnil
  cases hnil

/-- `RunOk` alone is not enough (interrupting strategies need `IntrAtQ`) -/
theorem track_complete_needs_intrAtQ :
    ¬ (∀ (x : MonCtx), GoodCtx x → x.coop = false → ∀ (evs : List Ev) (s : PState),
        ObsRun x (init x.c) evs s → RunOk evs → ∀ n ∈ (trackRun x { s := init x.c } evs).2, n.ok = true) := by
  intro h
  obtain ⟨s, hs⟩ := cxB_obsRun
  have hall := h _ (xDiamond_good cxB_cfg rfl rfl (by intro h; cases h)) rfl _ s hs cxB_side.1
  have hnil : (trackRun (xDiamond cxB_cfg) { s := init cxB_cfg } cxB_events).2.filter (fun n => !n.ok) = [] := by
    rw [List.filter_eq_nil_iff]
    intro n hn
    simp [hall n hn]
  rw [cxB_rejected] at hnil
  cases hnil

/-- `IntrAtQ` alone is not enough either -/
theorem track_complete_needs_runOk :
    ¬ (∀ (x : MonCtx), GoodCtx x → x.coop = false → ∀ (evs : List Ev) (s : PState),
        ObsRun x (init x.c) evs s → IntrAtQ x evs → ∀ n ∈ (trackRun x { s := init x.c } evs).2, n.ok = true) := by
  intro h
  obtain ⟨s, hs⟩ := cxA_obsRun
  have hall := h _ (xDiamond_good exCfg_F rfl rfl (by intro h; cases h)) rfl _ s hs cxA_side.2
  have hnil : (trackRun (xDiamond exCfg_F) { s := init exCfg_F } cxA_events).2.filter (fun n => !n.ok) = [] := by
    rw [List.filter_eq_nil_iff]
    intro n hn
    simp [hall n hn]
  rw [cxA_rejected] at hnil
  cases hnil

/-! ### non-vacuity -/

/-- (1) the clean complete run of the diamond with three `q` observations (`Theorems/TracePreds.lean`);
    its real schedule lets the scheduler poll BEFORE the queuer has folded the done ids and invokes
    lazily — not the monitor's order -/
example : ∀ n ∈ (trackRun (xDiamond exCfg_F) { s := init exCfg_F } okEvents_Q).2, n.ok = true := by
  obtain ⟨s, hs⟩ := ok_obsRun_Q
  exact track_complete (xDiamond_good exCfg_F rfl rfl (by intro h; cases h)) rfl hs
    ⟨ok_runOk_Q, Or.inl rfl⟩

set_option maxRecDepth 100000 in
example : (trackRun (xDiamond exCfg_F) { s := init exCfg_F } okEvents_Q).2.length = 25 := by decide

/-- (2) `FinishCurrent`, interrupted run: the signal arrives directly after the first `q`; a real
    schedule in which the scheduler polls (`Pending`) between the signal and the completion of `0`,
    and hands `2` out as `Interrupted(Some 2)`; the call returns `Interrupted`, `1` and `3` not processed -/
def intrSchedule_S : List OA :=
  [.act .schedPoll, .act (.invoke 0), .act .schedPoll, .q, .act .interrupt, .act .schedPoll,
   .act (.finish 0 true), .act .queuerRecv, .act .schedPoll, .act (.invoke 2), .act .schedPoll, .q,
   .act (.finish 2 true), .act .queuerRecv, .act .queuerEnd, .act .schedEnd, .act .ret]

def intrEvents_S : List Ev :=
  [.handout 0, .invoke 0, .q, .intr, .fin 0 true, .handout 2, .invoke 2, .q, .fin 2 true,
   .retOutcome false [0, 2] [1, 3] [] "break"]

set_option maxRecDepth 100000 in
theorem intr_obsRun_S : ∃ s, ObsRun (xDiamond intrCfg_Q) (init intrCfg_Q) intrEvents_S s :=
  obsRun_of_obsEvents' (l := intrSchedule_S) (by decide)

theorem intr_side_S : TrackSide (xDiamond intrCfg_Q) intrEvents_S := ⟨⟨by decide⟩, Or.inr (by decide)⟩

example : ∀ n ∈ (trackRun (xDiamond intrCfg_Q) { s := init intrCfg_Q } intrEvents_S).2, n.ok = true := by
  obtain ⟨s, hs⟩ := intr_obsRun_S
  exact track_complete (xDiamond_good intrCfg_Q rfl rfl (by intro h; cases h)) rfl hs intr_side_S

/-- (3) `FinishCurrent`, `incl = false`, `limit 2`: the poll after the signal swallows `3` and CLOSES the
    done channel between the completions of `2` and `1` — in the real run `1`'s completion is no longer
    reported to the queuer, in the monitor's replay (both completions first, then the poll) it is.  The
    two model states differ for good (`released`, `counts`); `SimC` identifies them. -/
def closeCfg_S : Cfg := { exCfg_F with strat := .finish, incl := false, limit := some 2 }

def closeSchedule_S : List OA :=
  [.act .schedPoll, .act (.invoke 0), .act .schedPoll, .q, .act (.finish 0 true), .act .queuerRecv,
   .act .schedPoll, .act (.invoke 2), .act .schedPoll, .act (.invoke 1), .q, .act .interrupt,
   .act (.finish 2 true), .act .schedPoll, .act (.finish 1 true), .act .queuerRecv, .act .queuerEnd,
   .act .schedPoll, .act .schedEnd, .act .ret]

def closeEvents_S : List Ev :=
  [.handout 0, .invoke 0, .q, .fin 0 true, .handout 2, .invoke 2, .handout 1, .invoke 1, .q, .intr,
   .fin 2 true, .fin 1 true, .retOutcome false [0, 2, 1] [3] [] "break"]

set_option maxRecDepth 100000 in
theorem close_obsRun_S : ∃ s, ObsRun (xDiamond closeCfg_S) (init closeCfg_S) closeEvents_S s :=
  obsRun_of_obsEvents' (l := closeSchedule_S) (by decide)

example : ∀ n ∈ (trackRun (xDiamond closeCfg_S) { s := init closeCfg_S } closeEvents_S).2, n.ok = true := by
  obtain ⟨s, hs⟩ := close_obsRun_S
  exact track_complete (xDiamond_good closeCfg_S rfl rfl (by intro h; cases h)) rfl hs
    ⟨⟨by decide⟩, Or.inr (by decide)⟩

set_option maxRecDepth 100000 in
/-- in (3) the real run and the monitor really end in different model states: the real queuer has
    released `0, 2`, the monitor's `0, 2, 1` -/
example :
    ((obsEvents (xDiamond closeCfg_S) (init closeCfg_S) closeSchedule_S).map (fun r => r.2.released)) = some [0, 2] ∧
    (trackRun (xDiamond closeCfg_S) { s := init closeCfg_S } closeEvents_S).1.s.released = [0, 2, 1] := by decide

end FG
