/-
  Theorems/TracePreds.lean — EVERY MODEL RUN SATISFIES THE SPECIFICATION PREDICATES that the
  correspondence driver evaluates on real traces (`predFut`, `Model/Monitor.lean`).

  Result of the exhaustive search done before proving (all `ObsRun`s of 15 graphs_Q with ≤ 3 nodes,
  240 configurations each, `q` at every quiescent non-returned state, every quiet interrupt point):
  exactly ONE predicate is false of some model run,

      C09 "processed=started":   `proc == m.realInvoked`   (a comparison of LISTS)

  `proc` is the hand-out order (`fn_ids_processed`), `realInvoked` the order in which the closures
  were started.  The model lets the `invoke` actions of several handed-out functions happen in any
  order (`[schedPoll, schedPoll, invoke 1, invoke 0]`), so the two lists can be permutations of
  each other: a potential false alarm of the checker if a real executor ever started closures in an
  order different from the hand-out order.  `preds_hold_original_false` is the kernel-checked
  counterexample.  Minimal extra hypothesis: `RunOk.invokeFifo` — the started functions, in start
  order, are an initial segment of the hand-outs (for a run that returns an outcome this is
  what the predicate itself says at the return: there `invoked` and `handedOut` have the same
  members, so `proc == realInvoked` iff the two ORDERS agree).  With it `preds_hold` is proved as stated;
  without it `preds_hold_partial` shows that all other predicates (C01, C02, C03, C04, C06, C07,
  C08, C10 and the remaining C09 clauses) hold of every model run.
-/
import FnGraphVerif.Proofs.QInvoke
import FnGraphVerif.Proofs.QRet
import FnGraphVerif.Proofs.QExample
namespace FG

/-- the side condition on a run: closures are started in hand-out order -/
structure RunOk (evs : List Ev) : Prop where
  invokeFifo : (evs.filterMap Ev.invoke?) <+: (evs.filterMap Ev.handout?)

variable {x : MonCtx}

/-- one model step: the coupling is kept and the notes of its events are good -/
theorem step_all (hx : GoodCtx x) {m : PredSt} {s s1 : PState} {as : List Action} (h : Coup x m s as)
    {a : Action} (hs : step? x.c s a = some s1)
    (hquiet : a = .interrupt → ∀ f ∈ s.inflight, f ∈ s.invoked) (tail : List Ev) :
    Coup x (predRun x m (stepEvents x.c x.control s a s1)).1 s1 (as ++ [a]) ∧
    ∀ n ∈ (predRun x m (stepEvents x.c x.control s a s1)).2,
      n.Good (FifoH m (stepEvents x.c x.control s a s1 ++ tail)) := by
  have lift : StepGoal x m s a s1 as →
      Coup x (predRun x m (stepEvents x.c x.control s a s1)).1 s1 (as ++ [a]) ∧
      ∀ n ∈ (predRun x m (stepEvents x.c x.control s a s1)).2,
        n.Good (FifoH m (stepEvents x.c x.control s a s1 ++ tail)) :=
    fun g => ⟨g.1, fun n hn => Note.good_of_ok (g.2 n hn)⟩
  cases a with
  | queuerRecv => exact lift (step_queuerRecv_coup hx h hs)
  | queuerEnd => exact lift (step_queuerEnd_coup hx h hs)
  | schedPoll => exact lift (step_schedPoll_coup hx h hs)
  | invoke f => exact lift (step_invoke_coup hx h hs)
  | finish f ok => exact lift (step_finish_coup hx h hs)
  | interrupt => exact lift (step_interrupt_coup h hs (hquiet rfl))
  | schedEnd => exact lift (step_schedEnd_coup hx h hs)
  | ret => exact step_ret_coup hx h hs tail

/-- the generalised statement: from any coupled pair of states -/
theorem preds_gen (hx : GoodCtx x) {s s' : PState} {evs : List Ev} (h : ObsRun x s evs s') :
    ∀ (m : PredSt) (as : List Action), Coup x m s as →
      ∀ n ∈ (predRun x m evs).2, n.Good (FifoH m evs) := by
  induction h with
  | nil s => intro m as _ n hn; cases hn
  | @step s s1 s' evs a hs hquiet _ ih =>
    intro m as hc n hn
    obtain ⟨hc', hnotes⟩ := step_all hx hc hs hquiet evs
    rw [predRun_append] at hn
    rcases List.mem_append.mp hn with hn | hn
    · exact hnotes n hn
    · exact (ih _ _ hc' n hn).congr (fifoH_predRun x _ _ m)
  | @q s s' evs hq hres _ ih =>
    intro m as hc n hn
    obtain ⟨hc', hnotes⟩ := q_coup hx hc hq hres
    simp only [predRun] at hn
    rcases List.mem_append.mp hn with hn | hn
    · exact Note.good_of_ok (hnotes n hn)
    · exact (ih _ _ hc' n hn).congr (fifoH_cons x m .q evs)

/-- ORIGINAL STATEMENT (false without `hok`, refuted by `preds_hold_original_false` below):
    `theorem preds_hold {x : MonCtx} (hx : GoodCtx x) {evs : List Ev} {s : PState}
       (h : ObsRun x (init x.c) evs s) : ∀ n ∈ (predRun x {} evs).2, n.ok = true`

    **Every model run satisfies every specification predicate of `predFut`.**
    Side condition added: `hok : RunOk evs` (closures are started in hand-out order); it is only
    needed for the C09 note "processed=started". -/
theorem preds_hold {x : MonCtx} (hx : GoodCtx x) {evs : List Ev} {s : PState}
    (h : ObsRun x (init x.c) evs s) (hok : RunOk evs) : ∀ n ∈ (predRun x {} evs).2, n.ok = true := by
  intro n hn
  refine (preds_gen hx h {} [] (coup_init x) n hn).1 ?_
  unfold FifoH
  simpa using hok.invokeFifo

/-- without the side condition: every note is ok except possibly C09 "processed=started" -/
theorem preds_hold_partial {x : MonCtx} (hx : GoodCtx x) {evs : List Ev} {s : PState}
    (h : ObsRun x (init x.c) evs s) :
    ∀ n ∈ (predRun x {} evs).2, n.ok = true ∨ n.isProcStarted :=
  fun n hn => (preds_gen hx h {} [] (coup_init x) n hn).2

/-! ### family by family (no side condition except for C09) -/

def Note.property : Note → String
  | .prop p _ _ => p
  | .cmp _ _ _ _ => ""

theorem preds_hold_family {x : MonCtx} (hx : GoodCtx x) {evs : List Ev} {s : PState}
    (h : ObsRun x (init x.c) evs s) (p : String) (hp : p ≠ "C09") :
    ∀ n ∈ (predRun x {} evs).2, n.property = p → n.ok = true := by
  intro n hn hnp
  rcases preds_hold_partial hx h n hn with h1 | h1
  · exact h1
  · exfalso
    cases n with
    | cmp => exact h1
    | prop q wh b =>
      simp only [Note.property] at hnp
      exact hp (hnp ▸ h1.1)

theorem preds_hold_C01 {x : MonCtx} (hx : GoodCtx x) {evs : List Ev} {s : PState}
    (h : ObsRun x (init x.c) evs s) : ∀ n ∈ (predRun x {} evs).2, n.property = "C01" → n.ok = true :=
  preds_hold_family hx h "C01" (by decide)
theorem preds_hold_C02 {x : MonCtx} (hx : GoodCtx x) {evs : List Ev} {s : PState}
    (h : ObsRun x (init x.c) evs s) : ∀ n ∈ (predRun x {} evs).2, n.property = "C02" → n.ok = true :=
  preds_hold_family hx h "C02" (by decide)
theorem preds_hold_C03 {x : MonCtx} (hx : GoodCtx x) {evs : List Ev} {s : PState}
    (h : ObsRun x (init x.c) evs s) : ∀ n ∈ (predRun x {} evs).2, n.property = "C03" → n.ok = true :=
  preds_hold_family hx h "C03" (by decide)
theorem preds_hold_C04 {x : MonCtx} (hx : GoodCtx x) {evs : List Ev} {s : PState}
    (h : ObsRun x (init x.c) evs s) : ∀ n ∈ (predRun x {} evs).2, n.property = "C04" → n.ok = true :=
  preds_hold_family hx h "C04" (by decide)
theorem preds_hold_C06 {x : MonCtx} (hx : GoodCtx x) {evs : List Ev} {s : PState}
    (h : ObsRun x (init x.c) evs s) : ∀ n ∈ (predRun x {} evs).2, n.property = "C06" → n.ok = true :=
  preds_hold_family hx h "C06" (by decide)
theorem preds_hold_C07 {x : MonCtx} (hx : GoodCtx x) {evs : List Ev} {s : PState}
    (h : ObsRun x (init x.c) evs s) : ∀ n ∈ (predRun x {} evs).2, n.property = "C07" → n.ok = true :=
  preds_hold_family hx h "C07" (by decide)
theorem preds_hold_C08 {x : MonCtx} (hx : GoodCtx x) {evs : List Ev} {s : PState}
    (h : ObsRun x (init x.c) evs s) : ∀ n ∈ (predRun x {} evs).2, n.property = "C08" → n.ok = true :=
  preds_hold_family hx h "C08" (by decide)
theorem preds_hold_C10 {x : MonCtx} (hx : GoodCtx x) {evs : List Ev} {s : PState}
    (h : ObsRun x (init x.c) evs s) : ∀ n ∈ (predRun x {} evs).2, n.property = "C10" → n.ok = true :=
  preds_hold_family hx h "C10" (by decide)
/-- C09: all clauses under `RunOk`; without it all clauses but "processed=started" -/
theorem preds_hold_C09 {x : MonCtx} (hx : GoodCtx x) {evs : List Ev} {s : PState}
    (h : ObsRun x (init x.c) evs s) (hok : RunOk evs) :
    ∀ n ∈ (predRun x {} evs).2, n.property = "C09" → n.ok = true :=
  fun n hn _ => preds_hold hx h hok n hn

/-! ### the original statement is false: kernel-checked counterexample

  The diamond `0→1, 0→2, 1→3, 2→3` (unlimited, no interrupt, no failure).  Functions 2 and 1 are
  handed out in this order and their closures are started in the order 1, 2.  Everything else is a
  clean complete run; it returns `processed = [0, 2, 1, 3]` while the starts were `[0, 1, 2, 3]`. -/

def cxSchedule_Q_Q_Q : List OA :=
  ([.schedPoll, .invoke 0, .finish 0 true, .queuerRecv, .schedPoll, .schedPoll, .invoke 1, .invoke 2,
    .finish 2 true, .finish 1 true, .queuerRecv, .queuerRecv, .schedPoll, .invoke 3, .finish 3 true,
    .queuerRecv, .schedPoll, .schedEnd, .queuerEnd, .ret] : List Action).map OA.act

def cxEvents_Q_Q_Q : List Ev :=
  [.handout 0, .invoke 0, .fin 0 true, .handout 2, .handout 1, .invoke 1, .invoke 2, .fin 2 true,
   .fin 1 true, .handout 3, .invoke 3, .fin 3 true, .retOutcome true [0, 2, 1, 3] [] [] "cont"]

set_option maxRecDepth 100000 in
theorem cx_obsRun_Q : ∃ s, ObsRun (xDiamond exCfg_F) (init exCfg_F) cxEvents_Q_Q_Q s :=
  obsRun_of_obsEvents' (l := cxSchedule_Q_Q_Q) (by decide)

set_option maxRecDepth 100000 in
/-- exactly one note fails, the C09 "processed=started" one -/
theorem cx_fails_Q : ((predRun (xDiamond exCfg_F) {} cxEvents_Q_Q_Q).2.filter (fun n => !n.ok)).map Note.property
    = ["C09"] := by decide

/-- the run does not start the closures in hand-out order -/
example : ¬ RunOk cxEvents_Q_Q_Q := fun h => absurd h.invokeFifo (by decide)

theorem preds_hold_original_false :
    ¬ (∀ (x : MonCtx), GoodCtx x → ∀ (evs : List Ev) (s : PState), ObsRun x (init x.c) evs s →
        ∀ n ∈ (predRun x {} evs).2, n.ok = true) := by
  intro h
  obtain ⟨s, hs⟩ := cx_obsRun_Q
  have hall := h _ (xDiamond_good exCfg_F rfl rfl (by intro h; cases h)) _ s hs
  have hnil : (predRun (xDiamond exCfg_F) {} cxEvents_Q_Q_Q).2.filter (fun n => !n.ok) = [] := by
    rw [List.filter_eq_nil_iff]
    intro n hn
    simp [hall n hn]
  have := cx_fails_Q
  rw [hnil] at this
  cases this

/-! ### non-vacuity -/

/-- (1) a clean complete run of the diamond with `q` observations at its three quiescent points
    (exercises C01, C02, C03 incl. clean-all, C04, C06, C07, C09, C10, C08 noop) -/
def okSchedule_Q : List OA :=
  [.act .schedPoll, .act (.invoke 0), .act .schedPoll, .q, .act (.finish 0 true), .act .queuerRecv,
   .act .schedPoll, .act .schedPoll, .act (.invoke 2), .act (.invoke 1), .act .schedPoll, .q,
   .act (.finish 2 true), .act (.finish 1 true), .act .queuerRecv, .act .queuerRecv, .act .schedPoll,
   .act (.invoke 3), .act .schedPoll, .q, .act (.finish 3 true), .act .queuerRecv, .act .schedPoll,
   .act .schedEnd, .act .queuerEnd, .act .ret]

def okEvents_Q : List Ev :=
  [.handout 0, .invoke 0, .q, .fin 0 true, .handout 2, .handout 1, .invoke 2, .invoke 1, .q, .fin 2 true,
   .fin 1 true, .handout 3, .invoke 3, .q, .fin 3 true, .retOutcome true [0, 2, 1, 3] [] [] "cont"]

set_option maxRecDepth 100000 in
theorem ok_obsRun_Q : ∃ s, ObsRun (xDiamond exCfg_F) (init exCfg_F) okEvents_Q s :=
  obsRun_of_obsEvents' (l := okSchedule_Q) (by decide)

theorem ok_runOk_Q : RunOk okEvents_Q := ⟨by decide⟩

/-- the theorem applied: all 46 notes of this run are ok -/
example : ∀ n ∈ (predRun (xDiamond exCfg_F) {} okEvents_Q).2, n.ok = true := by
  obtain ⟨s, hs⟩ := ok_obsRun_Q
  exact preds_hold (xDiamond_good exCfg_F rfl rfl (by intro h; cases h)) hs ok_runOk_Q

set_option maxRecDepth 100000 in
example : (predRun (xDiamond exCfg_F) {} okEvents_Q).2.length = 46 := by decide

/-- (2) `FinishCurrent`: the signal arrives at a quiescent point; one more function (2) is handed
    out as `Interrupted(Some 2)` and started, the call returns `Interrupted` with 1 and 3 not
    processed; a second signal after the return (exercises the C08 start bound, the C08 / C10
    "never returns" clauses at `q`, started-all-reported) -/
def intrCfg_Q : Cfg := { exCfg_F with strat := .finish }

def intrSchedule_Q : List OA :=
  [.act .schedPoll, .act (.invoke 0), .act .schedPoll, .q, .act .interrupt, .act (.finish 0 true),
   .act .queuerRecv, .act .schedPoll, .act (.invoke 2), .act .schedPoll, .q, .act (.finish 2 true),
   .act .queuerRecv, .act .queuerEnd, .act .schedEnd, .act .ret, .act .interrupt]

def intrEvents_Q : List Ev :=
  [.handout 0, .invoke 0, .q, .intr, .fin 0 true, .handout 2, .invoke 2, .q, .fin 2 true,
   .retOutcome false [0, 2] [1, 3] [] "break", .intr]

set_option maxRecDepth 100000 in
theorem intr_obsRun_Q : ∃ s, ObsRun (xDiamond intrCfg_Q) (init intrCfg_Q) intrEvents_Q s :=
  obsRun_of_obsEvents' (l := intrSchedule_Q) (by decide)

example : ∀ n ∈ (predRun (xDiamond intrCfg_Q) {} intrEvents_Q).2, n.ok = true := by
  obtain ⟨s, hs⟩ := intr_obsRun_Q
  exact preds_hold (xDiamond_good intrCfg_Q rfl rfl (by intro h; cases h)) hs ⟨by decide⟩

set_option maxRecDepth 100000 in
example : (predRun (xDiamond intrCfg_Q) {} intrEvents_Q).2.length = 27 := by decide

/-- (3) `try_fold` (sequential, short-circuit): function 0 succeeds, function 2 fails, the call
    returns `Err 2` (exercises the C07 first-error predicate and C10 with limit 1) -/
def shortCfg_Q : Cfg := { exCfg_F with errMode := .shortCircuit, sequential := true }

def shortSchedule_Q : List OA :=
  [.act .schedPoll, .act (.invoke 0), .q, .act (.finish 0 true), .act .queuerRecv, .act .schedPoll,
   .act (.invoke 2), .q, .act (.finish 2 false), .act .queuerEnd, .act .ret]

def shortEvents_Q : List Ev :=
  [.handout 0, .invoke 0, .q, .fin 0 true, .handout 2, .invoke 2, .q, .fin 2 false, .retErr 2]

set_option maxRecDepth 100000 in
theorem short_obsRun_Q : ∃ s, ObsRun (xDiamond shortCfg_Q) (init shortCfg_Q) shortEvents_Q s :=
  obsRun_of_obsEvents' (l := shortSchedule_Q) (by decide)

example : ∀ n ∈ (predRun (xDiamond shortCfg_Q) {} shortEvents_Q).2, n.ok = true := by
  obtain ⟨s, hs⟩ := short_obsRun_Q
  exact preds_hold (xDiamond_good shortCfg_Q rfl rfl (fun _ => rfl)) hs ⟨by decide⟩

end FG
