/-
  Theorems/TracePreds.lean — EVERY MODEL RUN SATISFIES THE SPECIFICATION PREDICATES that the
  correspondence driver evaluates on real traces (`predFut`, `Model/Monitor.lean`).

  Result of the exhaustive search done before proving (all `ObsRun`s of 15 graphs_Q with ≤ 3 nodes,
  240 configurations each, `q` at every quiescent non-returned state, every quiet interrupt point):
  exactly ONE predicate is false of some model run,

      C09 "processed=started":   `proc == m.realInvoked`   (a comparison of LISTS)

  `proc` is the hand-out order (`fn_ids_processed`), `realInvoked` the order in which the closures
  were started.  The model lets the `invoke` actions of several handed-out functions happen in any
  order (`[schedPoll, schedPoll, invoke 1, invoke 0]`), so the two lists can be permutations of
  each other: a potential false alarm of the checker if a real executor ever started closures in an
  order different from the hand-out order.  `preds_hold_original_false` is the kernel-checked
  counterexample.  Minimal extra hypothesis: `RunOk.invokeFifo` — the started functions, in start
  order, are an initial segment of the hand-outs (for a run that returns an outcome this is
  what the predicate itself says at the return: there `invoked` and `handedOut` have the same
  members, so `proc == realInvoked` iff the two ORDERS agree).  With it `preds_hold` is proved as stated;
  without it `preds_hold_partial` shows that all other predicates (C01, C02, C03, C04, C06, C07,
  C08, C10 and the remaining C09 clauses) hold of every model run.

  Later additions to `predFut` covered here: the C07 note on the declarations at `invoke` (nothing
  that conflicts with a failed function starts after the failure; by `GoodCtx.ordered`), the C10
  work-conservation note at `q` (idle below the limit ⇒ every ready function started;
  `limit_work_conserving`, proved in `Proofs/UIdle.lean`), and the `noReturnNotes` of `panic` /
  `livelock` (no model step shows these events).
-/
import FnGraphVerif.Proofs.QInvoke
import FnGraphVerif.Proofs.QRet
import FnGraphVerif.Proofs.QExample
namespace FG

/-- the side condition on a run: closures are started in hand-out order -/
structure RunOk (evs : List Ev) : Prop where
  invokeFifo : (evs.filterMap Ev.invoke?) <+: (evs.filterMap Ev.handout?)

variable {x : MonCtx}

/-- one model step: the coupling is kept and the notes of its events are good -/
theorem step_all (hx : GoodCtx x) {m : PredSt} {s s1 : PState} {as : List Action} (h : Coup x m s as)
    {a : Action} (hs : step? x.c s a = some s1)
    (hquiet : a = .interrupt → ∀ f ∈ s.inflight, f ∈ s.invoked) (tail : List Ev) :
    Coup x (predRun x m (stepEvents x.c x.control s a s1)).1 s1 (as ++ [a]) ∧
    ∀ n ∈ (predRun x m (stepEvents x.c x.control s a s1)).2,
      n.Good (FifoH m (stepEvents x.c x.control s a s1 ++ tail)) := by
  have lift : StepGoal x m s a s1 as →
      Coup x (predRun x m (stepEvents x.c x.control s a s1)).1 s1 (as ++ [a]) ∧
      ∀ n ∈ (predRun x m (stepEvents x.c x.control s a s1)).2,
        n.Good (FifoH m (stepEvents x.c x.control s a s1 ++ tail)) :=
    fun g => ⟨g.1, fun n hn => Note.good_of_ok (g.2 n hn)⟩
  cases a with
  | queuerRecv => exact lift (step_queuerRecv_coup hx h hs)
  | queuerEnd => exact lift (step_queuerEnd_coup hx h hs)
  | schedPoll => exact lift (step_schedPoll_coup hx h hs)
  | invoke f => exact lift (step_invoke_coup hx h hs)
  | finish f ok => exact lift (step_finish_coup hx h hs)
  | interrupt => exact lift (step_interrupt_coup h hs (hquiet rfl))
  | schedEnd => exact lift (step_schedEnd_coup hx h hs)
  | ret => exact step_ret_coup hx h hs tail

/-- the generalised statement: from any coupled pair of states -/
theorem preds_gen (hx : GoodCtx x) {s s' : PState} {evs : List Ev} (h : ObsRun x s evs s') :
    ∀ (m : PredSt) (as : List Action), Coup x m s as →
      ∀ n ∈ (predRun x m evs).2, n.Good (FifoH m evs) := by
  induction h with
  | nil s => intro m as _ n hn; cases hn
  | @step s s1 s' evs a hs hquiet _ ih =>
    intro m as hc n hn
    obtain ⟨hc', hnotes⟩ := step_all hx hc hs hquiet evs
    rw [predRun_append] at hn
    rcases List.mem_append.mp hn with hn | hn
    · exact hnotes n hn
    · exact (ih _ _ hc' n hn).congr (fifoH_predRun x _ _ m)
  | @q s s' evs hq hres _ ih =>
    intro m as hc n hn
    obtain ⟨hc', hnotes⟩ := q_coup hx hc hq hres
    simp only [predRun] at hn
    rcases List.mem_append.mp hn with hn | hn
    · exact Note.good_of_ok (hnotes n hn)
    · exact (ih _ _ hc' n hn).congr (fifoH_cons x m .q evs)

/-- ORIGINAL STATEMENT (false without `hok`, refuted by `preds_hold_original_false` below):
    `theorem preds_hold {x : MonCtx} (hx : GoodCtx x) {evs : List Ev} {s : PState}
       (h : ObsRun x (init x.c) evs s) : ∀ n ∈ (predRun x {} evs).2, n.ok = true`

    **Every model run satisfies every specification predicate of `predFut`.**
    Side condition added: `hok : RunOk evs` (closures are started in hand-out order); it is only
    needed for the C09 note "processed=started". -/
theorem preds_hold {x : MonCtx} (hx : GoodCtx x) {evs : List Ev} {s : PState}
    (h : ObsRun x (init x.c) evs s) (hok : RunOk evs) : ∀ n ∈ (predRun x {} evs).2, n.ok = true := by
  intro n hn
  refine (preds_gen hx h {} [] (coup_init x) n hn).1 ?_
  unfold FifoH
  simpa using hok.invokeFifo

/-- without the side condition: every note is ok except possibly C09 "processed=started" -/
theorem preds_hold_partial {x : MonCtx} (hx : GoodCtx x) {evs : List Ev} {s : PState}
    (h : ObsRun x (init x.c) evs s) :
    ∀ n ∈ (predRun x {} evs).2, n.ok = true ∨ n.isProcStarted :=
  fun n hn => (preds_gen hx h {} [] (coup_init x) n hn).2

/-! ### family by family (no side condition except for C09) -/

def Note.property : Note → String
  | .prop p _ _ => p
  | .cmp _ _ _ _ => ""

theorem preds_hold_family {x : MonCtx} (hx : GoodCtx x) {evs : List Ev} {s : PState}
    (h : ObsRun x (init x.c) evs s) (p : String) (hp : p ≠ "C09") :
    ∀ n ∈ (predRun x {} evs).2, n.property = p → n.ok = true := by
  intro n hn hnp
  rcases preds_hold_partial hx h n hn with h1 | h1
  · exact h1
  · exfalso
    cases n with
    | cmp => exact h1
    | prop q wh b =>
      simp only [Note.property] at hnp
      exact hp (hnp ▸ h1.1)

theorem preds_hold_C01 {x : MonCtx} (hx : GoodCtx x) {evs : List Ev} {s : PState}
    (h : ObsRun x (init x.c) evs s) : ∀ n ∈ (predRun x {} evs).2, n.property = "C01" → n.ok = true :=
  preds_hold_family hx h "C01" (by decide)
theorem preds_hold_C02 {x : MonCtx} (hx : GoodCtx x) {evs : List Ev} {s : PState}
    (h : ObsRun x (init x.c) evs s) : ∀ n ∈ (predRun x {} evs).2, n.property = "C02" → n.ok = true :=
  preds_hold_family hx h "C02" (by decide)
theorem preds_hold_C03 {x : MonCtx} (hx : GoodCtx x) {evs : List Ev} {s : PState}
    (h : ObsRun x (init x.c) evs s) : ∀ n ∈ (predRun x {} evs).2, n.property = "C03" → n.ok = true :=
  preds_hold_family hx h "C03" (by decide)
theorem preds_hold_C04 {x : MonCtx} (hx : GoodCtx x) {evs : List Ev} {s : PState}
    (h : ObsRun x (init x.c) evs s) : ∀ n ∈ (predRun x {} evs).2, n.property = "C04" → n.ok = true :=
  preds_hold_family hx h "C04" (by decide)
theorem preds_hold_C06 {x : MonCtx} (hx : GoodCtx x) {evs : List Ev} {s : PState}
    (h : ObsRun x (init x.c) evs s) : ∀ n ∈ (predRun x {} evs).2, n.property = "C06" → n.ok = true :=
  preds_hold_family hx h "C06" (by decide)
theorem preds_hold_C07 {x : MonCtx} (hx : GoodCtx x) {evs : List Ev} {s : PState}
    (h : ObsRun x (init x.c) evs s) : ∀ n ∈ (predRun x {} evs).2, n.property = "C07" → n.ok = true :=
  preds_hold_family hx h "C07" (by decide)
theorem preds_hold_C08 {x : MonCtx} (hx : GoodCtx x) {evs : List Ev} {s : PState}
    (h : ObsRun x (init x.c) evs s) : ∀ n ∈ (predRun x {} evs).2, n.property = "C08" → n.ok = true :=
  preds_hold_family hx h "C08" (by decide)
theorem preds_hold_C10 {x : MonCtx} (hx : GoodCtx x) {evs : List Ev} {s : PState}
    (h : ObsRun x (init x.c) evs s) : ∀ n ∈ (predRun x {} evs).2, n.property = "C10" → n.ok = true :=
  preds_hold_family hx h "C10" (by decide)
/-- C09: all clauses under `RunOk`; without it all clauses but "processed=started" -/
theorem preds_hold_C09 {x : MonCtx} (hx : GoodCtx x) {evs : List Ev} {s : PState}
    (h : ObsRun x (init x.c) evs s) (hok : RunOk evs) :
    ∀ n ∈ (predRun x {} evs).2, n.property = "C09" → n.ok = true :=
  fun n hn _ => preds_hold hx h hok n hn

/-! ### the original statement is false: kernel-checked counterexample

  The diamond `0→1, 0→2, 1→3, 2→3` (unlimited, no interrupt, no failure).  Functions 2 and 1 are
  handed out in this order and their closures are started in the order 1, 2.  Everything else is a
  clean complete run; it returns `processed = [0, 2, 1, 3]` while the starts were `[0, 1, 2, 3]`. -/

def cxSchedule_Q_Q_Q : List OA :=
  ([.schedPoll, .invoke 0, .finish 0 true, .queuerRecv, .schedPoll, .schedPoll, .invoke 1, .invoke 2,
    .finish 2 true, .finish 1 true, .queuerRecv, .queuerRecv, .schedPoll, .invoke 3, .finish 3 true,
    .queuerRecv, .schedPoll, .schedEnd, .queuerEnd, .ret] : List Action).map OA.act

def cxEvents_Q_Q_Q : List Ev :=
  [.handout 0, .invoke 0, .fin 0 true, .handout 2, .handout 1, .invoke 1, .invoke 2, .fin 2 true,
   .fin 1 true, .handout 3, .invoke 3, .fin 3 true, .retOutcome true [0, 2, 1, 3] [] [] "cont"]

set_option maxRecDepth 100000 in
theorem cx_obsRun_Q : ∃ s, ObsRun (xDiamond exCfg_F) (init exCfg_F) cxEvents_Q_Q_Q s :=
  obsRun_of_obsEvents' (l := cxSchedule_Q_Q_Q) (by decide)

set_option maxRecDepth 100000 in
/-- exactly one note fails, the C09 "processed=started" one -/
theorem cx_fails_Q : ((predRun (xDiamond exCfg_F) {} cxEvents_Q_Q_Q).2.filter (fun n => !n.ok)).map Note.property
    = ["C09"] := by decide

/-- the run does not start the closures in hand-out order -/
example : ¬ RunOk cxEvents_Q_Q_Q := fun h => absurd h.invokeFifo (by decide)

theorem preds_hold_original_false :
    ¬ (∀ (x : MonCtx), GoodCtx x → ∀ (evs : List Ev) (s : PState), ObsRun x (init x.c) evs s →
        ∀ n ∈ (predRun x {} evs).2, n.ok = true) := by
  intro h
  obtain ⟨s, hs⟩ := cx_obsRun_Q
  have hall := h _ (xDiamond_good exCfg_F rfl rfl (by intro h; cases h)) _ s hs
  have hnil : (predRun (xDiamond exCfg_F) {} cxEvents_Q_Q_Q).2.filter (fun n => !n.ok) = [] := by
    rw [List.filter_eq_nil_iff]
    intro n hn
    simp [hall n hn]
  have := cx_fails_Q
  rw [hnil] at this
  cases this

/-! ### non-vacuity -/

/-- (1) a clean complete run of the diamond with `q` observations at its three quiescent points
    (exercises C01, C02, C03 incl. clean-all, C04, C06, C07, C09, C10, C08 noop) -/
def okSchedule_Q : List OA :=
  [.act .schedPoll, .act (.invoke 0), .act .schedPoll, .q, .act (.finish 0 true), .act .queuerRecv,
   .act .schedPoll, .act .schedPoll, .act (.invoke 2), .act (.invoke 1), .act .schedPoll, .q,
   .act (.finish 2 true), .act (.finish 1 true), .act .queuerRecv, .act .queuerRecv, .act .schedPoll,
   .act (.invoke 3), .act .schedPoll, .q, .act (.finish 3 true), .act .queuerRecv, .act .schedPoll,
   .act .schedEnd, .act .queuerEnd, .act .ret]

def okEvents_Q : List Ev :=
  [.handout 0, .invoke 0, .q, .fin 0 true, .handout 2, .handout 1, .invoke 2, .invoke 1, .q, .fin 2 true,
   .fin 1 true, .handout 3, .invoke 3, .q, .fin 3 true, .retOutcome true [0, 2, 1, 3] [] [] "cont"]

set_option maxRecDepth 100000 in
theorem ok_obsRun_Q : ∃ s, ObsRun (xDiamond exCfg_F) (init exCfg_F) okEvents_Q s :=
  obsRun_of_obsEvents' (l := okSchedule_Q) (by decide)

theorem ok_runOk_Q : RunOk okEvents_Q := ⟨by decide⟩

/-- the theorem applied: all 50 notes of this run are ok -/
example : ∀ n ∈ (predRun (xDiamond exCfg_F) {} okEvents_Q).2, n.ok = true := by
  obtain ⟨s, hs⟩ := ok_obsRun_Q
  exact preds_hold (xDiamond_good exCfg_F rfl rfl (by intro h; cases h)) hs ok_runOk_Q

set_option maxRecDepth 100000 in
example : (predRun (xDiamond exCfg_F) {} okEvents_Q).2.length = 50 := by decide

/-- (2) `FinishCurrent`: the signal arrives at a quiescent point; one more function (2) is handed
    out as `Interrupted(Some 2)` and started, the call returns `Interrupted` with 1 and 3 not
    processed; a second signal after the return (exercises the C08 start bound, the C08 / C10
    "never returns" clauses at `q`, started-all-reported) -/
def intrCfg_Q : Cfg := { exCfg_F with strat := .finish }

def intrSchedule_Q : List OA :=
  [.act .schedPoll, .act (.invoke 0), .act .schedPoll, .q, .act .interrupt, .act (.finish 0 true),
   .act .queuerRecv, .act .schedPoll, .act (.invoke 2), .act .schedPoll, .q, .act (.finish 2 true),
   .act .queuerRecv, .act .queuerEnd, .act .schedEnd, .act .ret, .act .interrupt]

def intrEvents_Q : List Ev :=
  [.handout 0, .invoke 0, .q, .intr, .fin 0 true, .handout 2, .invoke 2, .q, .fin 2 true,
   .retOutcome false [0, 2] [1, 3] [] "break", .intr]

set_option maxRecDepth 100000 in
theorem intr_obsRun_Q : ∃ s, ObsRun (xDiamond intrCfg_Q) (init intrCfg_Q) intrEvents_Q s :=
  obsRun_of_obsEvents' (l := intrSchedule_Q) (by decide)

example : ∀ n ∈ (predRun (xDiamond intrCfg_Q) {} intrEvents_Q).2, n.ok = true := by
  obtain ⟨s, hs⟩ := intr_obsRun_Q
  exact preds_hold (xDiamond_good intrCfg_Q rfl rfl (by intro h; cases h)) hs ⟨by decide⟩

set_option maxRecDepth 100000 in
example : (predRun (xDiamond intrCfg_Q) {} intrEvents_Q).2.length = 29 := by decide

/-- (3) `try_fold` (sequential, short-circuit): function 0 succeeds, function 2 fails, the call
    returns `Err 2` (exercises the C07 first-error predicate and C10 with limit 1) -/
def shortCfg_Q : Cfg := { exCfg_F with errMode := .shortCircuit, sequential := true }

def shortSchedule_Q : List OA :=
  [.act .schedPoll, .act (.invoke 0), .q, .act (.finish 0 true), .act .queuerRecv, .act .schedPoll,
   .act (.invoke 2), .q, .act (.finish 2 false), .act .queuerEnd, .act .ret]

def shortEvents_Q : List Ev :=
  [.handout 0, .invoke 0, .q, .fin 0 true, .handout 2, .invoke 2, .q, .fin 2 false, .retErr 2]

set_option maxRecDepth 100000 in
theorem short_obsRun_Q : ∃ s, ObsRun (xDiamond shortCfg_Q) (init shortCfg_Q) shortEvents_Q s :=
  obsRun_of_obsEvents' (l := shortSchedule_Q) (by decide)

example : ∀ n ∈ (predRun (xDiamond shortCfg_Q) {} shortEvents_Q).2, n.ok = true := by
  obtain ⟨s, hs⟩ := short_obsRun_Q
  exact preds_hold (xDiamond_good shortCfg_Q rfl rfl (fun _ => rfl)) hs ⟨by decide⟩

/-- (4) limit 2: `q` observations below the limit (one function in flight: after the root started,
    after `2` returned while `1` runs, after `3` started) and at the limit (`1`, `2` running);
    exercises the C10 work-conservation note "idle below limit" three times and the C10 "limit blocks
    completion" note four times -/
def limCfg_U : Cfg := { exCfg_F with limit := some 2 }

def limSchedule_U : List OA :=
  [.act .schedPoll, .act (.invoke 0), .act .schedPoll, .q, .act (.finish 0 true), .act .queuerRecv,
   .act .schedPoll, .act .schedPoll, .act (.invoke 2), .act (.invoke 1), .q,
   .act (.finish 2 true), .act .queuerRecv, .act .schedPoll, .q, .act (.finish 1 true), .act .queuerRecv,
   .act .schedPoll, .act (.invoke 3), .act .schedPoll, .q, .act (.finish 3 true), .act .queuerRecv,
   .act .schedPoll, .act .schedEnd, .act .queuerEnd, .act .ret]

def limEvents_U : List Ev :=
  [.handout 0, .invoke 0, .q, .fin 0 true, .handout 2, .handout 1, .invoke 2, .invoke 1, .q, .fin 2 true,
   .q, .fin 1 true, .handout 3, .invoke 3, .q, .fin 3 true, .retOutcome true [0, 2, 1, 3] [] [] "cont"]

set_option maxRecDepth 100000 in
theorem lim_obsRun_U : ∃ s, ObsRun (xDiamond limCfg_U) (init limCfg_U) limEvents_U s :=
  obsRun_of_obsEvents' (l := limSchedule_U) (by decide)

example : ∀ n ∈ (predRun (xDiamond limCfg_U) {} limEvents_U).2, n.ok = true := by
  obtain ⟨s, hs⟩ := lim_obsRun_U
  exact preds_hold (xDiamond_good limCfg_U rfl rfl (by intro h; cases h)) hs ⟨by decide⟩

set_option maxRecDepth 100000 in
/-- the work-conservation note is emitted at the three `q` points below the limit (not at the one
    where both `1` and `2` run) -/
example : ((predRun (xDiamond limCfg_U) {} limEvents_U).2.filter (fun n =>
    n == .prop "C10" "q idle below limit 2 with a ready function unstarted" true)).length = 3 := by decide

/-- (5) a failure (collect mode): `2` fails while `1` (handed out before) has not started yet; `1`
    starts after the failure — it does not conflict with `2` (both only read) — and `3`, which is
    ordered after `2`, never starts (exercises both C07 notes at `invoke` with a non-empty list of
    failed functions, the C07 "never returns after a failure" note at `q`, C07 errors) -/
def failCfg_U : Cfg := { exCfg_F with errMode := .collect }

def failSchedule_U : List OA :=
  [.act .schedPoll, .act (.invoke 0), .act .schedPoll, .q, .act (.finish 0 true), .act .queuerRecv,
   .act .schedPoll, .act .schedPoll, .act (.invoke 2), .act (.finish 2 false), .act (.invoke 1),
   .act .queuerEnd, .act .schedPoll, .q, .act (.finish 1 true), .act .schedEnd, .act .ret]

def failEvents_U : List Ev :=
  [.handout 0, .invoke 0, .q, .fin 0 true, .handout 2, .handout 1, .invoke 2, .fin 2 false, .invoke 1, .q,
   .fin 1 true, .retOutcome false [0, 2, 1] [3] [2] "break"]

set_option maxRecDepth 100000 in
theorem fail_obsRun_U : ∃ s, ObsRun (xDiamond failCfg_U) (init failCfg_U) failEvents_U s :=
  obsRun_of_obsEvents' (l := failSchedule_U) (by decide)

example : ∀ n ∈ (predRun (xDiamond failCfg_U) {} failEvents_U).2, n.ok = true := by
  obtain ⟨s, hs⟩ := fail_obsRun_U
  exact preds_hold (xDiamond_good failCfg_U rfl rfl (by intro h; cases h)) hs ⟨by decide⟩

set_option maxRecDepth 100000 in
/-- the new C07 note is not trivially true: had `3` (which writes what `2` reads) started after the
    failure of `2`, the note would be false -/
example : (predFut (xDiamond failCfg_U)
    { realInvoked := [0, 2, 1], realEnded := [0, 2, 1], realEndedOk := [0, 1], realFailed := [2] }
    (.invoke 3)).2.filter (fun n => !n.ok && n.property == "C07") =
    [.prop "C07" "invoke 3" false, .prop "C07" "invoke 3 (conflicts with a failed function)" false] := by
  decide

set_option maxRecDepth 100000 in
/-- the C07 note at the failure itself ("nothing ordered after the failing function was started
    before") is emitted in this run, with the non-empty list `[0, 2]` of started functions, and it
    is the only note of the `fin 2 false` event; it holds -/
example : (predRun (xDiamond failCfg_U) {} failEvents_U).2.filter (fun n =>
    n == .prop "C07" "end 2 err (a function ordered after it was started before)" true) =
    [.prop "C07" "end 2 err (a function ordered after it was started before)" true] ∧
    (predRun (xDiamond failCfg_U) {} (failEvents_U.take 7)).1.realInvoked = [0, 2] ∧
    (predFut (xDiamond failCfg_U) (predRun (xDiamond failCfg_U) {} (failEvents_U.take 7)).1
      (.fin 2 false)).2 =
      [.prop "C07" "end 2 err (a function ordered after it was started before)" true] := by decide

set_option maxRecDepth 100000 in
example : (predRun (xDiamond failCfg_U) {} failEvents_U).2.length = 37 := by decide

set_option maxRecDepth 100000 in
/-- that note is falsifiable: had `3` (ordered after `2` in the scheduling graph) been started
    before `2` failed — a run in the wrong direction — the note would be false; a successful end
    emits no note -/
example : (predFut (xDiamond failCfg_U)
    { realInvoked := [0, 3, 2], realEnded := [0, 3], realEndedOk := [0, 3] } (.fin 2 false)).2 =
    [.prop "C07" "end 2 err (a function ordered after it was started before)" false] ∧
    (predFut (xDiamond failCfg_U)
    { realInvoked := [0, 3, 2], realEnded := [0, 3], realEndedOk := [0, 3] } (.fin 2 true)).2 = [] := by
  decide

set_option maxRecDepth 100000 in
/-- the same on a whole observed trace in the wrong direction (`3` first, then `1`, `2`, and `2`
    fails): the note at the failure is among the failing ones -/
example : (Note.prop "C07" "end 2 err (a function ordered after it was started before)" false) ∈
    (predRun (xDiamond failCfg_U) {}
      [.handout 3, .invoke 3, .fin 3 true, .handout 2, .handout 1, .invoke 2, .invoke 1, .fin 2 false]).2 := by
  decide

/-- (6) limit 0 ("0 and None mean unbounded"): the clean complete run (1) of the diamond, schedule and
    events unchanged, under `limit := some 0`; exercises the C10 note "limit 0 means unbounded, yet a
    ready function is unstarted" at each of the three `q` points (next to the C06 note, which states
    the same fact) -/
def lim0Cfg_Z : Cfg := { exCfg_F with limit := some 0 }

set_option maxRecDepth 100000 in
theorem lim0_obsRun_Z : ∃ s, ObsRun (xDiamond lim0Cfg_Z) (init lim0Cfg_Z) okEvents_Q s :=
  obsRun_of_obsEvents' (l := okSchedule_Q) (by decide)

/-- the theorem applied: all notes of this run are ok … -/
example : ∀ n ∈ (predRun (xDiamond lim0Cfg_Z) {} okEvents_Q).2, n.ok = true := by
  obtain ⟨s, hs⟩ := lim0_obsRun_Z
  exact preds_hold (xDiamond_good lim0Cfg_Z rfl rfl (by intro h; cases h)) hs ok_runOk_Q

/-- … in particular the C10 notes (family form) -/
example : ∀ n ∈ (predRun (xDiamond lim0Cfg_Z) {} okEvents_Q).2, n.property = "C10" → n.ok = true := by
  obtain ⟨s, hs⟩ := lim0_obsRun_Z
  exact preds_hold_C10 (xDiamond_good lim0Cfg_Z rfl rfl (by intro h; cases h)) hs

set_option maxRecDepth 100000 in
/-- the new note is emitted at the three `q` points (53 notes = the 50 of run (1) + 3), and with
    `limit := none` it is not emitted at all -/
example : ((predRun (xDiamond lim0Cfg_Z) {} okEvents_Q).2.filter (fun n =>
      n == .prop "C10" "q limit 0 means unbounded, yet a ready function is unstarted" true)).length = 3 ∧
    (predRun (xDiamond lim0Cfg_Z) {} okEvents_Q).2.length = 53 ∧
    ((predRun (xDiamond exCfg_F) {} okEvents_Q).2.filter (fun n =>
      n == .prop "C10" "q limit 0 means unbounded, yet a ready function is unstarted" true)).length = 0 := by
  decide

set_option maxRecDepth 100000 in
/-- the note is falsifiable: `0` has returned, only `2` was started — `1` is ready and unstarted (an
    implementation that read limit 0 as "one at a time"): the C10 note (and the C06 note) is false;
    with both `1` and `2` started it is true; after an interrupt or a failure, or in a sequential
    run, it is not emitted -/
example : (predFut (xDiamond lim0Cfg_Z)
      { realInvoked := [0, 2], realEnded := [0], realEndedOk := [0] } .q).2.filter (fun n => !n.ok) =
      [.prop "C06" "q" false,
       .prop "C10" "q limit 0 means unbounded, yet a ready function is unstarted" false] ∧
    (predFut (xDiamond lim0Cfg_Z)
      { realInvoked := [0, 2, 1], realEnded := [0], realEndedOk := [0] } .q).2.filter
        (fun n => n.property == "C10") =
      [.prop "C10" "q limit 0 means unbounded, yet a ready function is unstarted" true] ∧
    (predFut (xDiamond lim0Cfg_Z)
      { realInvoked := [0, 2], realEnded := [0], realEndedOk := [0], intrAt := some 1 } .q).2.filter
        (fun n => n.property == "C10") = [] ∧
    (predFut (xDiamond lim0Cfg_Z)
      { realInvoked := [0, 2, 1], realEnded := [0, 1], realEndedOk := [0], realFailed := [1] } .q).2.filter
        (fun n => n.property == "C10") = [] ∧
    (predFut (xDiamond { lim0Cfg_Z with sequential := true })
      { realInvoked := [0, 2], realEnded := [0], realEndedOk := [0] } .q).2.filter
        (fun n => n.property == "C10") = [] := by
  decide

/-! ### C10: a limit is work-conserving (the model fact behind the "idle below limit" note) -/

/-- **C10** (work conservation), re-exported from `Proofs/UIdle.lean`: limit `l+1`, not
    sequential, no interrupt, no failure: at a quiescent point with fewer than `l+1` functions in
    flight every function whose scheduling-graph predecessors have all returned ok has been handed
    out and invoked.  (`idle_under_limit_all_started` is the general form with `underLimit c s`,
    of which C06 `maximal_progress` is the unlimited instance.) -/
theorem limit_work_conserving {c : Cfg} {s : PState} (hc : GoodCfg c) (hr : Reachable c s)
    (hq : Quiescent c s) (hseq : c.sequential = false) {l : Nat} (hlim : c.limit = some (l + 1))
    (hlt : s.inflight.length < l + 1) (hni : s.im.sent = false ∧ s.im.recv = false)
    (hf : s.failed = []) {v : Nat} (hv : v < c.n) (hp : ∀ p ∈ parents c.D v, p ∈ s.endedOk) :
    v ∈ s.handedOut ∧ v ∈ s.invoked :=
  idle_below_limit_all_started hc hr hq hseq hlim hlt hni hf hv hp

/-- the same as the monitor evaluates it: `allBlockedB` of the started and ok-ended functions -/
theorem limit_work_conserving_allBlocked {c : Cfg} {s : PState} (hc : GoodCfg c) (hr : Reachable c s)
    (hq : Quiescent c s) (hseq : c.sequential = false) {l : Nat} (hlim : c.limit = some (l + 1))
    (hlt : s.inflight.length < l + 1) (hni : s.im.sent = false ∧ s.im.recv = false)
    (hf : s.failed = []) : allBlockedB c s.invoked s.endedOk = true := by
  unfold allBlockedB
  rw [List.all_eq_true]
  intro v hv
  rw [List.mem_range] at hv
  simp only [Bool.or_eq_true, decide_eq_true_eq, List.any_eq_true]
  by_cases hall : ∀ p ∈ parents c.D v, p ∈ s.endedOk
  · exact Or.inl (idle_below_limit_all_started hc hr hq hseq hlim hlt hni hf hv hall).2
  · right
    simp only [not_forall] at hall
    obtain ⟨p, hp, hpe⟩ := hall
    exact ⟨p, hp, hpe⟩

/- non-vacuity: limit 2, `0` and `2` returned, `1` running (`Proofs/LiveExample.lean`) -/
set_option maxRecDepth 100000 in
example : allBlockedB (exC_G (some 2)) exS2_G.invoked exS2_G.endedOk = true :=
  limit_work_conserving_allBlocked (l := 1) (exC_good_G _) exS2_reach_G (by decide) rfl rfl (by decide)
    (by decide) (by decide)

/-- the model fact behind the "limit 0 means unbounded" note (and the C06 note): `limit = none` or
    `some 0`, not sequential, no interrupt, no failure, quiescent: every function whose predecessors
    have all returned ok has been started -/
theorem unlimited_work_conserving_allBlocked {c : Cfg} {s : PState} (hc : GoodCfg c) (hr : Reachable c s)
    (hq : Quiescent c s) (hseq : c.sequential = false) (hlim : c.limit = none ∨ c.limit = some 0)
    (hni : s.im.sent = false ∧ s.im.recv = false)
    (hf : s.failed = []) : allBlockedB c s.invoked s.endedOk = true := by
  unfold allBlockedB
  rw [List.all_eq_true]
  intro v hv
  rw [List.mem_range] at hv
  simp only [Bool.or_eq_true, decide_eq_true_eq, List.any_eq_true]
  by_cases hall : ∀ p ∈ parents c.D v, p ∈ s.endedOk
  · exact Or.inl (maximal_progress_of_idle hc hr hq hseq hlim hni hf hv hall).2
  · right
    simp only [not_forall] at hall
    obtain ⟨p, hp, hpe⟩ := hall
    exact ⟨p, hp, hpe⟩

/-- limit 0 on the diamond of `Proofs/LiveExample.lean`: `0` and `1` have returned, `2` is running
    and `3` waits for it -/
def exZ2_Z : PState :=
  exStep_G (some 0) (exStep_G (some 0) (settle (exC_G (some 0)) (init (exC_G (some 0)))) 0 true) 1 true

theorem exZ2_reach_Z : Reachable (exC_G (some 0)) exZ2_Z :=
  exStep_reachable_G (exStep_reachable_G (settleN_reachable _ .init) _ _) _ _

/- non-vacuity: the hypotheses hold of that state, and it is the non-trivial one (`2` in flight,
   both children of the root started, `3` blocked) -/
set_option maxRecDepth 100000 in
example : allBlockedB (exC_G (some 0)) exZ2_Z.invoked exZ2_Z.endedOk = true :=
  unlimited_work_conserving_allBlocked (exC_good_G _) exZ2_reach_Z (by decide) rfl (Or.inr rfl) (by decide)
    (by decide)
set_option maxRecDepth 100000 in
example : exZ2_Z.inflight = [2] ∧ exZ2_Z.endedOk = [0, 1] ∧ 3 ∉ exZ2_Z.invoked := by decide

end FG
