/-
  Theorems/Build.lean — `FnGraphBuilder::build` as a whole (C11, first halves of C01 / C06, the
  structure facts C14 needs, and the hypotheses `GoodCfg` under which every run theorem is stated).
-/
import FnGraphVerif.Theorems.C11
import FnGraphVerif.Theorems.C13
import FnGraphVerif.Theorems.C14
import FnGraphVerif.Theorems.C16
import FnGraphVerif.Proofs.ProtoInv
import FnGraphVerif.Model.GraphInfo
import FnGraphVerif.Proofs.D2Glue
namespace FG

/-- the input of `augment` inside `build` satisfies `AugIn` -/
theorem build_augIn_D2 {b : BState} (h : BReach b) {rk : RankSt} (hrk : rankCalc b.graph = some rk) :
    AugIn b.graph rk.ranks :=
  have hg := (breach_good h).1
  ⟨hg, (ranks_longest hg hrk).1, fun _ _ he => ranks_strict hg hrk he⟩

/-- everything `build` computes, in one statement -/
theorem build_shape {b : BState} (h : BReach b) {G : FnGraph} (hb : build b = some G) :
    ∃ rk, rankCalc b.graph = some rk ∧ AugIn b.graph rk.ranks ∧
      G = { decls := b.fns, graph := (augment b.graph b.fns rk.ranks).g,
            struct := ⟨(augment b.graph b.fns rk.ranks).g.n, (augment b.graph b.fns rk.ranks).g.edges⟩,
            structRev := (augment b.graph b.fns rk.ranks).g.flip,
            ranks := rk.ranks, incoming := (predCounts (augment b.graph b.fns rk.ranks).g).1,
            outgoing := (predCounts (augment b.graph b.fns rk.ranks).g).2, pops := rk.pops,
            pathChecks := (augment b.graph b.fns rk.ranks).checks } := by
  obtain ⟨rk, s, r, hrk, _, hcs, hG⟩ := build_some hb
  have hin := build_augIn_D2 h hrk
  have hgood := (augment_sound (decls := b.fns) hin).2.2.2.1
  rw [copyStructs_good hgood] at hcs
  cases hcs
  exact ⟨rk, hrk, hin, hG⟩

/-- **C11**: `build` never panics: no `expect` fires and the rank loop has fuel to spare -/
theorem build_total {b : BState} (h : BReach b) : ∃ G, build b = some G := by
  have hg := (breach_good h).1
  obtain ⟨rk, hrk⟩ := rankCalc_total hg
  have hin := build_augIn_D2 h hrk
  have hs := augment_sound (decls := b.fns) hin
  unfold build
  simp only [hrk, hs.1, copyStructs_good hs.2.2.2.1]
  exact ⟨_, rfl⟩

/-- the build of the example builder `exB_D2` (4 functions, logic `0 → 2`, contains `2 → 3`;
    `0`/`1` conflict on type 1 and get the data edge `0 → 1`; `0`/`3` and `2`/`3` conflict too but
    are already ordered; `1`/`3` only share a read) -/
def exG_D2 : FnGraph :=
  { decls := exB_D2.fns
    graph := ⟨4, [⟨0, 2, .logic⟩, ⟨2, 3, .contains⟩, ⟨0, 1, .data⟩]⟩
    struct := ⟨4, [⟨0, 2, .logic⟩, ⟨2, 3, .contains⟩, ⟨0, 1, .data⟩]⟩
    structRev := ⟨4, [⟨2, 0, .logic⟩, ⟨3, 2, .contains⟩, ⟨1, 0, .data⟩]⟩
    ranks := [0, 0, 1, 2], incoming := [0, 1, 1, 1], outgoing := [2, 0, 1, 0], pops := 4, pathChecks := 6 }

theorem exG_build_D2 : build exB_D2 = some exG_D2 := by decide

-- non-vacuity of `build_total`: a reachable 4-node builder, and the graph it builds
example : ∃ G, build exB_D2 = some G ∧ G.graph.edges = [⟨0, 2, .logic⟩, ⟨2, 3, .contains⟩, ⟨0, 1, .data⟩] :=
  (build_total exB_reach_D2).imp fun G hG => by rw [exG_build_D2] at hG; cases hG; exact ⟨rfl, rfl⟩

/-- **C11**: the built graph keeps every function under its `FnId`, every accepted logic/contains
    edge with its kind as a prefix of the edge list, adds only `Data` edges and only between
    conflicting functions, is acyclic with at most one edge per pair, and joins every two
    conflicting functions by a directed path. -/
theorem build_sound {b : BState} (h : BReach b) {G : FnGraph} (hb : build b = some G) :
    G.decls = b.fns ∧ G.graph.n = b.fns.length ∧
    (∃ Dd, G.graph.edges = b.edges ++ Dd ∧
      ∀ e ∈ Dd, e.kind = .data ∧ conflict (declOf b.fns e.src) (declOf b.fns e.tgt) = true) ∧
    (∀ e ∈ b.edges, e.kind ≠ .data) ∧
    GoodG G.graph ∧
    (∀ u v, u < G.graph.n → v < G.graph.n → u ≠ v → conflict (declOf b.fns u) (declOf b.fns v) = true →
      ReachP G.graph u v ∨ ReachP G.graph v u) := by
  obtain ⟨rk, hrk, hin, rfl⟩ := build_shape h hb
  obtain ⟨_, hn, ⟨Dd, hDd, hD⟩, hgood, hconf, _⟩ := augment_sound (decls := b.fns) hin
  refine ⟨rfl, hn, ⟨Dd, hDd, fun e he => ⟨(hD e he).1, (hD e he).2.1⟩⟩, (breach_good h).2, hgood, ?_⟩
  intro u v hu hv
  exact hconf u v (hn ▸ hu) (hn ▸ hv)

-- non-vacuity of `build_sound`: hypotheses hold for `exB_D2`/`exG_D2`; the data suffix is `[0 → 1]`, and the
-- conflicting pairs (0,1), (0,3), (2,3) are all joined
example : exG_D2.graph.edges = exB_D2.edges ++ [⟨0, 1, .data⟩] ∧ GoodG exG_D2.graph ∧
    conflict (declOf exB_D2.fns 0) (declOf exB_D2.fns 3) = true ∧ conflict (declOf exB_D2.fns 1) (declOf exB_D2.fns 3) = false ∧
    (ReachP exG_D2.graph 0 3 ∨ ReachP exG_D2.graph 3 0) :=
  have hs := build_sound exB_reach_D2 exG_build_D2
  ⟨by decide, hs.2.2.2.2.1, by decide, by decide, hs.2.2.2.2.2 0 3 (by decide) (by decide) (by decide) (by decide)⟩

/-- the scheduling structures describe exactly the built graph; the counts are the degrees; the
    ranks are those of the user graph -/
theorem build_structs {b : BState} (h : BReach b) {G : FnGraph} (hb : build b = some G) :
    G.struct = ⟨G.graph.n, G.graph.edges⟩ ∧ G.structRev = G.graph.flip ∧
    (∀ v, G.incoming[v]?.getD 0 = (parents G.graph v).length) ∧ G.incoming.length = G.graph.n ∧
    (∀ v, G.outgoing[v]?.getD 0 = (children G.graph v).length) ∧ G.outgoing.length = G.graph.n ∧
    (∃ st, rankCalc b.graph = some st ∧ G.ranks = st.ranks ∧ G.pops = st.pops) := by
  obtain ⟨rk, hrk, hin, rfl⟩ := build_shape h hb
  have hgood := (augment_sound (decls := b.fns) hin).2.2.2.1
  obtain ⟨h1, h2, h3, h4⟩ := predCounts_spec hgood.wf
  exact ⟨rfl, rfl, h1, h2, h3, h4, rk, hrk, rfl, rfl⟩

-- non-vacuity of `build_structs` on `exG_D2`
example : exG_D2.struct = ⟨exG_D2.graph.n, exG_D2.graph.edges⟩ ∧ exG_D2.structRev = exG_D2.graph.flip ∧
    exG_D2.incoming = (List.range 4).map (fun v => (parents exG_D2.graph v).length) ∧
    exG_D2.outgoing = (List.range 4).map (fun v => (children exG_D2.graph v).length) ∧
    (rankCalc exB_D2.graph).map (·.ranks) = some exG_D2.ranks := by decide
example := build_structs exB_reach_D2 exG_build_D2

/-- **C18**: the whole build makes at most `n²` queue pops and `n²` path checks -/
theorem build_work {b : BState} (h : BReach b) {G : FnGraph} (hb : build b = some G) :
    G.pops ≤ G.graph.n * G.graph.n ∧ G.pathChecks ≤ G.graph.n * G.graph.n := by
  obtain ⟨rk, hrk, hin, rfl⟩ := build_shape h hb
  obtain ⟨_, hn, _, _, _, hchk⟩ := augment_sound (decls := b.fns) hin
  have hp := rank_pops_le (breach_good h).1 hrk
  dsimp only
  rw [hn]
  exact ⟨hp, hchk⟩

example : exG_D2.pops = 4 ∧ exG_D2.pathChecks = 6 ∧ exG_D2.graph.n * exG_D2.graph.n = 16 := by decide
example : exG_D2.pops ≤ 16 ∧ exG_D2.pathChecks ≤ 16 := build_work exB_reach_D2 exG_build_D2

/-- **C13** on the built graph -/
theorem build_ranks {b : BState} (h : BReach b) {G : FnGraph} (hb : build b = some G) :
    G.ranks.length = b.fns.length ∧ ∀ v, v < b.fns.length → IsLongestChain b.graph v (G.ranks[v]?.getD 0) := by
  obtain ⟨rk, hrk, hin, rfl⟩ := build_shape h hb
  exact ranks_longest (breach_good h).1 hrk

-- non-vacuity of `build_ranks`: function 3 has rank 2 (chain `0 → 2 → 3`)
example : IsLongestChain exB_D2.graph 3 2 := (build_ranks exB_reach_D2 exG_build_D2).2 3 (by decide)
example : Walk exB_D2.graph 0 3 2 :=
  .snoc (.snoc (.nil 0) ⟨⟨0, 2, .logic⟩, by decide, rfl, rfl⟩) ⟨⟨2, 3, .contains⟩, by decide, rfl, rfl⟩

/-- the forward scheduling structure IS the built graph (`Dag` has eta) -/
theorem build_struct_eq {b : BState} (h : BReach b) {G : FnGraph} (hb : build b = some G) :
    G.struct = G.graph := (build_structs h hb).1

/-- every run theorem applies to forward and reverse runs of every built graph -/
theorem build_goodCfg {b : BState} (h : BReach b) {G : FnGraph} (hb : build b = some G)
    (c : Cfg) (hc : (c.D = G.struct ∧ c.counts0 = G.incoming) ∨ (c.D = G.structRev ∧ c.counts0 = G.outgoing)) :
    GoodCfg c := by
  obtain ⟨hs, hr, hin, hinl, hout, houtl, _⟩ := build_structs h hb
  have hgood := (build_sound h hb).2.2.2.2.1
  have key : ∀ (D : Dag) (cnt : List Nat), GoodG D → cnt.length = D.n →
      (∀ v, cnt[v]?.getD 0 = (parents D v).length) → c.D = D → c.counts0 = cnt → GoodCfg c := by
    intro D cnt hD hl hcnt hcD hcc
    subst hcD; subst hcc
    obtain ⟨p1, p2⟩ := preload_roots hD hcnt
    exact ⟨hD.wf, hD.simple, hD.acyclic, hl, hcnt, p1, p2⟩
  rcases hc with ⟨hD, hcnt⟩ | ⟨hD, hcnt⟩
  · exact key G.graph G.incoming hgood hinl hin (hD.trans hs) hcnt
  · refine key G.graph.flip G.outgoing (flip_good hgood) houtl ?_ (hD.trans hr) hcnt
    intro v
    rw [parents_flip]; exact hout v

-- non-vacuity of `build_goodCfg`: forward and reverse configurations of `exG_D2`
example : GoodCfg (Cfg.forward exG_D2) := build_goodCfg exB_reach_D2 exG_build_D2 _ (Or.inl ⟨rfl, rfl⟩)
example : GoodCfg (Cfg.reverse exG_D2) := build_goodCfg exB_reach_D2 exG_build_D2 _ (Or.inr ⟨rfl, rfl⟩)
example : preload (Cfg.forward exG_D2) = [0] ∧ preload (Cfg.reverse exG_D2) = [3, 1] := by decide

/-- **C14** on the built graph: `iter`, `toposort`, `map`/`fold`/`for_each`/`try_*` visit every function
    once after all its predecessors in the BUILT graph (data edges included); `iter_rev` after all its
    successors; insertion order is `0..n` -/
theorem build_seq {b : BState} (h : BReach b) {G : FnGraph} (hb : build b = some G) :
    topoOrderB G.graph G.iter = true ∧ topoOrderB G.graph G.toposort = true ∧
    topoOrderB G.graph G.visitOrder = true ∧ topoOrderB G.graph.flip G.iterRev = true ∧
    G.iterInsertion = List.range b.fns.length := by
  obtain ⟨hs, hr, _⟩ := build_structs h hb
  have hs' : G.struct = G.graph := hs
  obtain ⟨_, hn, _, _, hgood, _⟩ := build_sound h hb
  have ht := topo_topoOrderB hgood
  have htr := topo_topoOrderB (flip_good hgood)
  refine ⟨?_, ?_, ht, ?_, ?_⟩
  · unfold FnGraph.iter; rw [hs']; exact ht
  · unfold FnGraph.toposort; rw [hs']; exact ht
  · unfold FnGraph.iterRev; rw [hr]; exact htr
  · unfold FnGraph.iterInsertion; rw [hn]

-- non-vacuity of `build_seq` on `exG_D2`
example : exG_D2.iter = [0, 2, 3, 1] ∧ exG_D2.iterRev = [3, 2, 1, 0] ∧
    topoOrderB exG_D2.graph exG_D2.iter = true ∧ topoOrderB exG_D2.graph exG_D2.toposort = true ∧
    topoOrderB exG_D2.graph exG_D2.visitOrder = true ∧ topoOrderB exG_D2.graph.flip exG_D2.iterRev = true ∧
    topoOrderB exG_D2.graph [0, 1, 2, 3] = true ∧ topoOrderB exG_D2.graph [1, 0, 2, 3] = false := by decide
example := build_seq exB_reach_D2 exG_build_D2

/-- **C17**: `GraphInfo::from_graph` is total on built graphs and mirrors nodes (insertion order,
    mapped through the caller's function) and edges (with kinds, `Data` included); (de)serialisation
    round-trips; `iter` / `iter_rev` are topological / reverse topological -/
theorem graphInfo_spec {b : BState} (h : BReach b) {G : FnGraph} (hb : build b = some G) (f : Nat → FnDecl → Nat) :
    ∃ gi, GraphInfo.fromGraph G f = some gi ∧
      gi.nodes = (List.range b.fns.length).map (fun i => f i (declOf b.fns i)) ∧
      gi.edges = G.graph.edges ∧
      GraphInfo.deser gi.ser = gi ∧
      topoOrderB G.graph gi.iter = true ∧ topoOrderB G.graph.flip gi.iterRev = true := by
  obtain ⟨hd, hn, _, _, hgood, _⟩ := build_sound h hb
  have hdag : (⟨((List.range G.decls.length).map (fun i => f i (declOf G.decls i))).length, G.graph.edges⟩ : Dag)
      = G.graph := by
    rw [List.length_map, List.length_range, hd, ← hn]
  refine ⟨⟨(List.range G.decls.length).map (fun i => f i (declOf G.decls i)), G.graph.edges⟩, ?_, ?_, rfl, ?_, ?_, ?_⟩
  · unfold GraphInfo.fromGraph
    rw [isCyclic_false hgood.acyclic]; rfl
  · rw [hd]
  · unfold GraphInfo.deser GraphInfo.ser
    simp only [List.map_map]
    congr 1
    conv => rhs; rw [← List.map_id G.graph.edges]
    apply List.map_congr_left
    intro e _; rfl
  · unfold GraphInfo.iter GraphInfo.dag
    rw [hdag]; exact topo_topoOrderB hgood
  · unfold GraphInfo.iterRev GraphInfo.dag
    rw [hdag]; exact topo_topoOrderB (flip_good hgood)

-- non-vacuity of `graphInfo_spec` on `exG_D2` with `f i d = 10 * i + d.tag`
example : ∃ gi, GraphInfo.fromGraph exG_D2 (fun i d => 10 * i + d.tag) = some gi ∧ gi.nodes = [0, 11, 22, 33] ∧
    gi.edges = exG_D2.graph.edges ∧ GraphInfo.deser gi.ser = gi ∧
    topoOrderB exG_D2.graph gi.iter = true ∧ topoOrderB exG_D2.graph.flip gi.iterRev = true :=
  ⟨_, rfl, by decide, by decide, by decide, by decide, by decide⟩
example := graphInfo_spec exB_reach_D2 exG_build_D2 (fun i d => 10 * i + d.tag)

end FG
