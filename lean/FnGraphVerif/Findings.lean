/-
  Findings.lean — kernel-checked witnesses of defects of the PINNED sources.

  C05: the pinned `stream_internal` closure (`drain = false`: one `poll_recv` of the done channel per
  poll) loses a wake-up.  Graph `a → c`, `b → c` (nodes 0, 1, 2; edges 0→2, 1→2; initial
  predecessor counts `[0, 0, 2]`; the preload is `[1, 0]`, Topo order).  Actions: poll (yields b), poll (yields a), poll (`Pending`,
  registers both wakers), drop a (consumes the done waker, wakes), drop b (no waker left, no wake),
  poll: receives only `a`, `c` still has count 1, the receive was `Ready` so NO waker is
  re-registered on the done channel, the ready channel is empty → `Pending`.  Now the consumer is
  parked, `b` sits in the done channel, `c` has all its predecessors dropped, and nobody will ever
  wake the task: `lastPending ∧ needsPoll ∧ wake = false`.
-/
import FnGraphVerif.Theorems.C05
namespace FG

/-- `a → c`, `b → c`.  (With `counts0 = [0, 0, 1]` the counts would not match the graph — `GoodCfg` fails —
    and `c` would be released by the first drop alone; the correct incoming counts are `[0, 0, 2]`.) -/
def pinnedJoin : Cfg :=
  { D := { n := 3, edges := [⟨0, 2, .logic⟩, ⟨1, 2, .logic⟩] }, counts0 := [0, 0, 2] }

def pinnedActions : List SAction := [.poll, .poll, .poll, .drop 0, .drop 1, .poll]

/-- the state the pinned closure is in after `pinnedActions` -/
def pinnedStuck : SState :=
  { counts := [0, 0, 1], readyQ := [], doneQ := [1], txOpen := true, fnsRemaining := 1,
    doneRxWaker := false, readyRxWaker := true, wake := false, yielded := [1, 0], live := [],
    droppedRefs := [0, 1], released := [0], streamDropped := false, lastPending := true,
    im := { hp := true } }

/-- the run is enabled step by step and ends in `pinnedStuck` -/
theorem pinned_run : srun pinnedJoin false (sinit pinnedJoin) pinnedActions = some pinnedStuck := by decide

/-- **C05 finding** (concrete form): parked, node 2 not yielded, all its predecessors dropped, the
    stream alive — and no wake-up signalled, no waker registered on the non-empty done channel. -/
theorem pinned_lost_wakeup_concrete :
    pinnedStuck.lastPending = true ∧ pinnedStuck.streamDropped = false ∧
    (2 < pinnedJoin.n ∧ 2 ∉ pinnedStuck.yielded ∧ ∀ p ∈ parents pinnedJoin.D 2, p ∈ pinnedStuck.droppedRefs) ∧
    pinnedStuck.wake = false ∧ pinnedStuck.doneRxWaker = false ∧ pinnedStuck.doneQ ≠ [] ∧
    pinnedStuck.panic = false := by decide

theorem pinnedJoin_good : GoodCfg pinnedJoin := goodCfg_of_check (by decide)

theorem pinned_reachable : SReachable pinnedJoin false pinnedStuck :=
  sreachable_srun SReachable.init pinned_run

/-- **C05 finding**: the statement of `no_lost_wakeup` is FALSE for the pinned closure (`drain = false`) -/
theorem pinned_violates_no_lost_wakeup :
    ¬ ∀ (c : Cfg) (s : SState), GoodCfg c → SReachable c false s → s.streamDropped = false →
        s.lastPending = true → needsPoll c s → s.wake = true := by
  intro h
  have := h pinnedJoin pinnedStuck pinnedJoin_good pinned_reachable (by decide) (by decide)
    ⟨2, pinned_lost_wakeup_concrete.2.2.1⟩
  exact absurd this (by decide)

/-- the same schedule under the fixed closure (`drain = true`): the last poll drains both ids and yields `c` -/
example : (srun pinnedJoin true (sinit pinnedJoin) pinnedActions).map (fun s => (s.yielded, s.lastPending))
    = some ([1, 0, 2], false) := by decide

/-- and from `pinnedStuck` no further poll of the pinned closure is ever triggered by a waker: the only
    remaining enabled non-poll actions are `interrupt` and `dropStream` (no `FnRef` is live) -/
example : pinnedStuck.live = [] := by decide

end FG
