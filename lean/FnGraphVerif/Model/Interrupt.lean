/-
  Model/Interrupt.lean — `interruptible::InterruptibleStream` (0.2.4) and the part of
  `InterruptibilityState` it uses, transcribed branch for branch.

  Fields: `sent` = a signal sits in the interrupt channel; `recv` =
  `interrupt_signal_received.is_some()`; `cnt` = `poll_since_interrupt_count`;
  `sig` = `self.interrupt_signal.is_some()`; `hp` = `has_pending`; `ipc` =
  `item_polled_is_counted`; `ian` = `interrupted_and_notified`.
-/
namespace FG

inductive Strat | non | ignore | finish | pollN (n : Nat)
  deriving DecidableEq, Repr, Inhabited

/-- what the underlying stream answers (or would answer) to a poll -/
inductive Under | item | none | pending
  deriving DecidableEq, Repr, Inhabited

/-- `NoInterrupt(item)`, `Interrupted(Some item)`, `Interrupted(None)`, end of stream, `Pending` -/
inductive Out | noInt | intSome | intNone | endd | pending
  deriving DecidableEq, Repr, Inhabited

structure IM where
  sent : Bool := false
  recv : Bool := false
  cnt : Nat := 0
  sig : Bool := false
  hp : Bool := false
  ipc : Bool := false
  ian : Bool := false
  deriving DecidableEq, Repr, Inhabited

def Strat.isN : Strat → Bool | .pollN _ => true | _ => false

/-- `interrupt_check` + `item_interrupt_poll` -/
def interruptCheck (st : Strat) (m : IM) : IM :=
  if !m.sig && !m.ipc then
    match st with
    | .non => { m with ipc := false }
    | _ =>
      let needs := if st.isN then !m.hp else true
      let first := !m.recv && m.sent
      let recv' := m.recv || m.sent
      let sent' := if m.recv then m.sent else false
      if recv' then
        let inc := needs && (!st.isN || !first)
        let cnt' := if inc then m.cnt + 1 else m.cnt
        let sig' := match st with
          | .ignore => false | .finish => true | .pollN n => decide (n ≤ cnt') | .non => false
        { m with sent := sent', recv := recv', cnt := cnt', sig := sig', ipc := inc }
      else { m with ipc := false }
  else m

/-- does this `poll_next` poll the underlying stream at all? -/
def pollsInner (st : Strat) (m0 : IM) : Bool :=
  if m0.ian then false else
  let m := interruptCheck st m0
  m.hp || !m.sig

/-- `poll_next`, given the underlying stream's answer `u` (ignored when `pollsInner = false`) -/
def pollNext (st : Strat) (m0 : IM) (u : Under) : IM × Out :=
  if m0.ian then (m0, .endd) else
  let m := interruptCheck st m0
  let r : IM × Out :=
    if m.hp then
      match u with
      | .pending => (m, .pending)
      | .item => if m.sig then ({ m with ian := true }, .intSome) else (m, .noInt)
      | .none => if m.sig then ({ m with ian := true }, .intNone) else (m, .endd)
    else if m.sig then ({ m with ian := true }, .intNone)
    else match u with
      | .pending => ({ m with hp := true }, .pending)
      | .item => (m, .noInt)
      | .none => (m, .endd)
  if r.2 = .pending then r else ({ r.1 with hp := false, ipc := false }, r.2)

end FG
