/-
  Model/StreamPoll.lean — `stream_internal` (the hand-written `poll_fn` behind
  `stream`, `stream_with`, `stream_interruptible`, `stream_with_interruptible`)
  at poll granularity, with wakers.

  A registered waker stays registered until a send consumes it (tokio's
  `AtomicWaker`).  `drain = true` is the closure after the `fix:` commit (the
  done channel is received until `Pending`/closed); `drain = false` is the
  pinned closure (one receive per poll) and is used only in `Findings.lean`.
-/
import FnGraphVerif.Model.Proto
namespace FG

structure SState where
  counts : List Nat
  readyQ : List Nat := []
  doneQ : List Nat := []
  txOpen : Bool := true            -- the stream's `fn_done_tx` / `fn_ready_tx` are `Some`
  fnsRemaining : Nat
  doneRxWaker : Bool := false      -- a waker is registered on the done channel
  readyRxWaker : Bool := false
  wake : Bool := false             -- the consumer task has been woken since the current/last poll began
  yielded : List Nat := []
  live : List Nat := []            -- `FnRef`s not yet dropped
  droppedRefs : List Nat := []
  released : List Nat := []
  streamDropped : Bool := false
  lastPending : Bool := false      -- ghost: the consumer's last poll returned `Pending` (it is parked)
  im : IM := {}
  panic : Bool := false
  deriving DecidableEq, Repr, Inhabited

inductive PollRes | some (f : Nat) | none | pending
  deriving DecidableEq, Repr, Inhabited

def sinit (c : Cfg) : SState :=
  { counts := c.counts0, readyQ := preload c, txOpen := c.n != 0, fnsRemaining := c.n,
    panic := decide (c.cap < (preload c).length) }

/-- fold one done id: decrement the successors, `try_send` those reaching 0 -/
def sRelease (c : Cfg) (s : SState) (x : Nat) (rest : List Nat) : SState :=
  let before := s.readyQ.length
  let r := relFold s.txOpen c.cap (s.counts, s.readyQ, s.panic) (children c.D x)
  let sent := decide (before < r.2.1.length)
  { s with doneQ := rest, counts := r.1, readyQ := r.2.1, panic := r.2.2, released := s.released ++ [x],
           wake := s.wake || (sent && s.readyRxWaker),
           readyRxWaker := s.readyRxWaker && !sent }

/-- is some sender of the done channel alive (the stream's own or a live `FnRef`'s clone)? -/
def SState.doneSenders (s : SState) : Bool := s.txOpen || !s.live.isEmpty

/-- `fn_done_rx.poll_recv` repeated until `Pending` / closed (fixed closure) -/
def sDrain (c : Cfg) : Nat → SState → SState
  | 0, s => s
  | k+1, s =>
    match s.doneQ with
    | x :: rest => sDrain c k (sRelease c s x rest)
    | [] => if s.doneSenders then { s with doneRxWaker := true } else s

/-- the pinned closure: exactly one `poll_recv` -/
def sRecvOnce (c : Cfg) (s : SState) : SState :=
  match s.doneQ with
  | x :: rest => sRelease c s x rest
  | [] => if s.doneSenders then { s with doneRxWaker := true } else s

/-- one call of the `poll_fn` closure -/
def spoll (c : Cfg) (drain : Bool) (s0 : SState) : SState × PollRes :=
  let s0 := { s0 with wake := false }
  let s := if drain then sDrain c (s0.doneQ.length + 1) s0 else sRecvOnce c s0
  if s.txOpen then
    match s.readyQ with
    | f :: rest =>
      let (rem, pan) := decr s.fnsRemaining
      ({ s with readyQ := rest, yielded := s.yielded ++ [f], live := s.live ++ [f], fnsRemaining := rem,
                txOpen := rem != 0, panic := s.panic || pan }, .some f)
    | [] => ({ s with readyRxWaker := true }, .pending)   -- the stream holds a ready sender itself
  else (s, .none)

/-- `FnRef::drop`: `try_send(fn_id)` on the done channel -/
def sdrop (c : Cfg) (s : SState) (f : Nat) : Option SState :=
  if f ∉ s.live then none else
  let s := { s with live := s.live.erase f, droppedRefs := s.droppedRefs ++ [f] }
  if s.streamDropped || c.cap ≤ s.doneQ.length then some s
  else some { s with doneQ := s.doneQ ++ [f], wake := s.wake || s.doneRxWaker, doneRxWaker := false }

def sdropStream (s : SState) : SState := { s with streamDropped := true }

/-- a poll of the interruptible wrapper (`stream*_interruptible`) -/
def sipoll (c : Cfg) (drain : Bool) (s : SState) : SState × Out × Option Nat :=
  if pollsInner c.strat s.im then
    let (s', r) := spoll c drain s
    let u : Under := match r with | .some _ => .item | .none => .none | .pending => .pending
    let (m, out) := pollNext c.strat s.im u
    ({ s' with im := m, lastPending := decide (out = .pending) }, out, match r with | .some f => some f | _ => none)
  else
    let (m, out) := pollNext c.strat s.im .pending
    ({ s with im := m, wake := false, lastPending := decide (out = .pending) }, out, none)

inductive SAction
  | poll
  | drop (f : Nat)
  | dropStream
  | interrupt
  deriving DecidableEq, Repr, Inhabited

def sstep? (c : Cfg) (drain : Bool) (s : SState) : SAction → Option SState
  | .poll => if s.streamDropped then none else some (sipoll c drain s).1
  | .drop f => sdrop c s f
  | .dropStream => if s.streamDropped then none else some (sdropStream s)
  | .interrupt => some { s with im := { s.im with sent := true } }

inductive SReachable (c : Cfg) (drain : Bool) : SState → Prop
  | init : SReachable c drain (sinit c)
  | step {s s' : SState} (a : SAction) : SReachable c drain s → sstep? c drain s a = some s' →
      SReachable c drain s'

end FG
