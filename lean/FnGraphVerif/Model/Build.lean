/-
  Model/Build.lean — `FnGraphBuilder::build`, `PredecessorCountCalc::calc`,
  `PartialEq for FnGraph`.
-/
import FnGraphVerif.Model.RankCalc
import FnGraphVerif.Model.Augment
namespace FG

structure FnGraph where
  decls : List FnDecl       -- the functions (node weights), insertion order
  graph : Dag               -- pub field `graph`
  struct : Dag              -- `graph_structure`
  structRev : Dag           -- `graph_structure_rev`
  ranks : List Nat
  incoming : List Nat       -- `edge_counts.incoming`
  outgoing : List Nat       -- `edge_counts.outgoing`
  pops : Nat                -- ghost: queue pops of the rank loop (hook counter)
  pathChecks : Nat          -- ghost: `has_path_connecting` calls of `augment`
  deriving DecidableEq, Repr, Inhabited

def bump (l : List Nat) (i : Nat) : List Nat := l.set i (l[i]?.getD 0 + 1)

/-- `PredecessorCountCalc::calc`: for every node, `incoming[child] += 1` for each child and
    `outgoing[parent] += 1` for each parent. -/
def predCounts (g : Dag) : List Nat × List Nat :=
  (List.range g.n).foldl
    (fun (acc : List Nat × List Nat) u =>
      ((children g u).foldl bump acc.1, (parents g u).foldl bump acc.2))
    (List.replicate g.n 0, List.replicate g.n 0)

/-- the two edge-only copies, rebuilt edge by edge through the cycle-checking `add_edge` -/
def copyStructs (g : Dag) : Option (Dag × Dag) :=
  g.edges.foldl
    (fun (acc : Option (Dag × Dag)) e =>
      match acc with
      | none => none
      | some (s, r) =>
        match addEdgeChecked s e.src e.tgt e.kind with
        | none => none
        | some s' =>
          match addEdgeChecked r e.tgt e.src e.kind with
          | none => none
          | some r' => some (s', r'))
    (some (⟨g.n, []⟩, ⟨g.n, []⟩))

/-- `build()`; `none` = one of its `expect`s fires (or the rank loop runs out of fuel). -/
def build (b : BState) : Option FnGraph :=
  match rankCalc b.graph with
  | none => none
  | some rk =>
    let a := augment b.graph b.fns rk.ranks
    if !a.ok then none else
    let pc := predCounts a.g
    match copyStructs a.g with
    | none => none
    | some (s, r) =>
      some { decls := b.fns, graph := a.g, struct := s, structRev := r, ranks := rk.ranks,
             incoming := pc.1, outgoing := pc.2, pops := rk.pops, pathChecks := a.checks }

/-- `impl PartialEq for FnGraph`: node count, edge count, zipped edges (endpoints and kinds),
    zipped functions. -/
def eqGraph (x y : FnGraph) : Bool :=
  x.graph.n == y.graph.n && x.graph.edges.length == y.graph.edges.length
  && (x.graph.edges.zip y.graph.edges).all (fun p => p.1.src == p.2.src && p.1.tgt == p.2.tgt && p.1.kind == p.2.kind)
  && (x.decls.zip y.decls).all (fun p => p.1 == p.2)

end FG
