/-
  Model/Settle.lean — the deterministic big step "run the internal actions to
  quiescence the way a single task does", used by the correspondence driver and
  by the liveness theorems (`Quiescent s := settle1 c s = none`).
-/
import FnGraphVerif.Model.Proto
namespace FG

/-- the internal action a single-task executor performs next, if any -/
def nextInternal (c : Cfg) (s : PState) : Option Action :=
  if s.result.isSome then none
  else match s.inflight.find? (fun f => decide (f ∉ s.invoked)) with
  | some f => some (.invoke f)
  | none =>
    if !s.qDone && !s.doneQ.isEmpty then some .queuerRecv
    else if !s.qDone && !s.doneTxOpen then some .queuerEnd
    else if !s.sDone && !s.streamEnded && underLimit c s then
      -- a poll that answers `Pending` and changes nothing is not a step
      match step? c s .schedPoll with
      | some s' => if s' = s then none else some .schedPoll
      | none => none
    else if s.streamEnded && s.inflight.isEmpty && !s.sDone then some .schedEnd
    else if s.sDone && s.qDone then some .ret
    else none

def settle1 (c : Cfg) (s : PState) : Option (Action × PState) :=
  match nextInternal c s with
  | none => none
  | some a => match step? c s a with
    | none => none
    | some s' => some (a, s')

def settleN (c : Cfg) : Nat → PState → PState
  | 0, s => s
  | k+1, s => match settle1 c s with
    | none => s
    | some (_, s') => settleN c k s'

/-- enough fuel for any state: every internal action strictly decreases a measure bounded by this -/
def settleFuel (c : Cfg) : Nat := 6 * c.n + 16

def settle (c : Cfg) (s : PState) : PState := settleN c (settleFuel c) s

def Quiescent (c : Cfg) (s : PState) : Prop := settle1 c s = none

instance (c : Cfg) (s : PState) : Decidable (Quiescent c s) := by unfold Quiescent; infer_instance

end FG
