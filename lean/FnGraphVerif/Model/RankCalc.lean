/-
  Model/RankCalc.lean — `RankCalc::calc`: work-list relaxation from the root
  nodes; `ranks[child] = max(ranks[child], ranks[node] + 1)`.

  `old = true`  : the loop as pinned (pushes every child on every visit — one
                  pop per root path; kept only for `Findings.lean`).
  `old = false` : the loop after the `fix:` commit (a child is updated and
                  pushed only when its rank rises).
-/
import FnGraphVerif.Model.Graph
namespace FG

def isRoot (g : Dag) (v : Nat) : Bool := (parents g v).isEmpty

def roots (g : Dag) : List Nat := (List.range g.n).filter (isRoot g)

structure RankSt where
  ranks : List Nat
  queue : List Nat
  pops : Nat
  deriving DecidableEq, Repr, Inhabited

/-- body of the `for_each` over `graph.children(fn_id)` -/
def relaxChild (old : Bool) (r : Nat) (st : List Nat × List Nat) (c : Nat) : List Nat × List Nat :=
  let cur := st.1[c]?.getD 0
  if old then (st.1.set c (max cur r), st.2 ++ [c])
  else if cur < r then (st.1.set c r, st.2 ++ [c]) else st

/-- one `pop_front` and its relaxations -/
def rankPop (old : Bool) (g : Dag) (st : RankSt) (u : Nat) (rest : List Nat) : RankSt :=
  let r := st.ranks[u]?.getD 0 + 1
  let p := (children g u).foldl (relaxChild old r) (st.ranks, rest)
  ⟨p.1, p.2, st.pops + 1⟩

/-- `while let Some(fn_id) = fn_ids.pop_front()`; `none` = fuel exhausted with work left -/
def rankLoop (old : Bool) (g : Dag) : Nat → RankSt → Option RankSt
  | 0, st => if st.queue.isEmpty then some st else none
  | fuel+1, st =>
    match st.queue with
    | [] => some st
    | u :: rest => rankLoop old g fuel (rankPop old g st u rest)

def rankInit (g : Dag) : RankSt := ⟨List.replicate g.n 0, roots g, 0⟩

/-- fuel that provably suffices for the fixed loop on acyclic graphs (C18) -/
def rankFuel (g : Dag) : Nat := g.n * g.n + g.n + 1

def rankCalc (g : Dag) : Option RankSt := rankLoop false g (rankFuel g) (rankInit g)

end FG
