/-
  Model/Augment.lean — `DataEdgeAugmenter::augment`.

  * `fn_ids.sort_by(rank)` is Rust's stable sort; a stable sort's output is
    unique, so a structural stable insertion sort models it.
  * outer loop: positions from last to first; inner loop: `fn_ids[index..]`
    without the function itself; `has_path_connecting` on the *current* graph;
    the three-clause conflict predicate verbatim; `update_edge(.., Data)` whose
    `.expect` is modelled by `ok = false`.
  * `fn_ids_seen` is reset every outer iteration and the ids of one slice are
    distinct, so it never suppresses a pair; it is not modelled (a change that
    makes it matter shows up as a B-edges difference).
-/
import FnGraphVerif.Model.Builder
namespace FG

/-- the conflict predicate of `augment`, clause for clause -/
def conflict (a b : FnDecl) : Bool :=
  a.reads.any (fun l => b.writes.any (fun r => l == r))
  || a.writes.any (fun l => b.reads.any (fun r => l == r))
  || a.writes.any (fun l => b.writes.any (fun r => l == r))

/-- insert `x` after every element whose rank is `≤ rk x` (stability) -/
def insertByRank (rk : Nat → Nat) (x : Nat) : List Nat → List Nat
  | [] => [x]
  | y :: ys => if rk x < rk y then x :: y :: ys else y :: insertByRank rk x ys

def sortByRank (rk : Nat → Nat) (l : List Nat) : List Nat :=
  l.foldl (fun acc x => insertByRank rk x acc) []

structure AugSt where
  g : Dag
  checks : Nat      -- number of `has_path_connecting` calls
  ok : Bool         -- `false` = the `.expect("Failed to add data edge …")` fired
  deriving DecidableEq, Repr, Inhabited

def declOf (decls : List FnDecl) (i : Nat) : FnDecl := decls[i]?.getD ⟨[], [], 0⟩

def augPair (decls : List FnDecl) (u : Nat) (st : AugSt) (v : Nat) : AugSt :=
  if !st.ok then st
  else if hasPath st.g u v then { st with checks := st.checks + 1 }
  else if conflict (declOf decls u) (declOf decls v) then
    match updateEdge st.g u v .data with
    | (g', .ok _) => { g := g', checks := st.checks + 1, ok := true }
    | _ => { st with checks := st.checks + 1, ok := false }
  else { st with checks := st.checks + 1 }

def augOuter (decls : List FnDecl) (ids : List Nat) (st : AugSt) (index : Nat) : AugSt :=
  let u := ids[index]?.getD 0
  ((ids.drop index).filter (fun v => v != u)).foldl (augPair decls u) st

def rankOrder (n : Nat) (ranks : List Nat) : List Nat :=
  sortByRank (fun i => ranks[i]?.getD 0) (List.range n)

def augment (g : Dag) (decls : List FnDecl) (ranks : List Nat) : AugSt :=
  let ids := rankOrder g.n ranks
  (List.range g.n).reverse.foldl (augOuter decls ids) ⟨g, 0, true⟩

end FG
