/-
  Model/Topo.lean — `petgraph::visit::Topo`, literally.

  `tovisit` is a stack (here: head = top).  `new` pushes every node without
  incoming edges in index order; `next` pops, skips visited nodes, marks the
  node, pushes each neighbour (adjacency order) all of whose parents are
  visited, and returns the node.
-/
import FnGraphVerif.Model.RankCalc
namespace FG

def topoPush (g : Dag) (ord : List Nat) (st : List Nat) (c : Nat) : List Nat :=
  if (parents g c).all (fun p => decide (p ∈ ord)) then c :: st else st

/-- `Topo::next`: `some (node, ordered', stack')` or `none` at the end -/
def topoNext (g : Dag) (ordered : List Nat) : List Nat → Option (Nat × List Nat × List Nat)
  | [] => none
  | x :: rest =>
    if x ∈ ordered then topoNext g ordered rest
    else
      let ord' := ordered ++ [x]
      some (x, ord', (children g x).foldl (topoPush g ord') rest)

def topoAll (g : Dag) : Nat → List Nat → List Nat → List Nat
  | 0, ord, _ => ord
  | fuel+1, ord, st =>
    match topoNext g ord st with
    | none => ord
    | some (_, ord', st') => topoAll g fuel ord' st'

/-- the whole traversal: `Topo::new(g).iter(g).collect()` -/
def topo (g : Dag) : List Nat := topoAll g (g.n + 1) [] (roots g).reverse

end FG
