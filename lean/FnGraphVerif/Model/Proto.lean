/-
  Model/Proto.lean — the concurrent run protocol of `FnGraph`
  (`fold_async*`, `try_fold_async*`, `for_each_concurrent*`,
  `try_for_each_concurrent*` incl. `mut`, `control`, `with` variants) as one
  parametric transition system.  See DESIGN.md 4.3 for the table of actions.
-/
import FnGraphVerif.Model.Seq
import FnGraphVerif.Model.Interrupt
namespace FG

inductive ErrMode
  | none          -- closure cannot fail (`fold_async*`, `for_each_concurrent*`)
  | collect       -- `try_for_each_concurrent*`: errors collected, run winds down
  | shortCircuit  -- `try_fold_async*`: `?` returns the first error
  deriving DecidableEq, Repr, Inhabited

structure Cfg where
  D : Dag                     -- scheduling graph: `graph_structure` or `graph_structure_rev`
  counts0 : List Nat          -- `edge_counts.incoming` or `.outgoing`
  limit : Option Nat := none  -- `for_each_concurrent(limit, ..)`; `none` and `some 0` = unbounded
  sequential : Bool := false  -- `fold` / `try_fold`: one item at a time
  errMode : ErrMode := .none
  isMut : Bool := false       -- `*_mut`: `try_write().expect(..)` on hand-out
  strat : Strat := .non
  incl : Bool := true         -- `interrupted_next_item_include`
  deriving Repr, Inhabited

def Cfg.n (c : Cfg) : Nat := c.D.n
/-- `channel_capacity = max(1, node_count)` -/
def Cfg.cap (c : Cfg) : Nat := max 1 c.D.n

def Cfg.forward (G : FnGraph) : Cfg := { D := G.struct, counts0 := G.incoming }
def Cfg.reverse (G : FnGraph) : Cfg := { D := G.structRev, counts0 := G.outgoing }

/-- what the call returns -/
inductive Ret
  | outcome (finished : Bool) (processed notProcessed errors : List Nat)
  | err (f : Nat)             -- `try_fold_async*`: `Err(e)` of function `f`
  deriving DecidableEq, Repr, Inhabited

structure PState where
  counts : List Nat               -- `predecessor_counts` (queuer's copy)
  readyQ : List Nat := []         -- buffer of the ready channel (FIFO)
  readyTxOpen : Bool := true      -- queuer still holds `fn_ready_tx`
  readyRxOpen : Bool := true      -- scheduler still holds `fn_ready_rx`
  doneQ : List Nat := []          -- buffer of the done channel (FIFO)
  doneTxOpen : Bool := true       -- scheduler's `Option<Sender>` is `Some`
  released : List Nat := []       -- done ids the queuer has folded
  qRemaining : Nat                -- queuer's `fns_remaining`
  qDone : Bool := false           -- queuer future finished
  sRemaining : Nat                -- scheduler's `fns_remaining`
  handedOut : List Nat := []      -- `fn_ids_processed` (dequeue order)
  invoked : List Nat := []        -- user closure called
  inflight : List Nat := []       -- handed out, user future not yet resolved
  endedOk : List Nat := []
  failed : List Nat := []
  errors : List Nat := []         -- contents of the result channel
  dropped : Option Nat := none    -- id swallowed with `interrupted_next_item_include = false`
  closeAfter : Option Nat := none -- the `Interrupted(Some f)` item: its completion drops the done sender
  im : IM := {}
  streamEnded : Bool := false     -- the (interruptible) ready stream returned `None`
  sDone : Bool := false           -- scheduler future finished
  shortErr : Option Nat := none   -- `try_fold`: the error it returned with
  result : Option Ret := none     -- the call has returned
  panic : Bool := false           -- an `expect` / `usize` underflow / `try_write` fired, or a bounded
                                  -- `send().await` would have blocked
  deriving DecidableEq, Repr, Inhabited

/-- `fns_no_predecessors`: Topo order filtered by a zero count -/
def preload (c : Cfg) : List Nat :=
  (topo c.D).filter (fun v => c.counts0[v]?.getD 0 == 0)

def init (c : Cfg) : PState :=
  { counts := c.counts0, readyQ := preload c,
    readyTxOpen := c.n != 0,        -- `fn_ready_queuer`: `if fns_remaining == 0 { fn_ready_tx.take() }`
    doneTxOpen := c.n != 0,         -- every `*_internal`: `if node_count == 0 { fn_done_tx.take() }`
    qRemaining := c.n, sRemaining := c.n,
    panic := decide (c.cap < (preload c).length) }   -- `expect("Failed to preload …")`

inductive Action
  | queuerRecv
  | queuerEnd
  | schedPoll
  | invoke (f : Nat)
  | finish (f : Nat) (ok : Bool)
  | interrupt
  | schedEnd
  | ret
  deriving DecidableEq, Repr, Inhabited

/-- one decrement of `predecessor_counts[c]`; queue `c` when it reaches 0.
    `st = (counts, readyQ, panic)` -/
def relStep (canSend : Bool) (cap : Nat) (st : List Nat × List Nat × Bool) (c : Nat) :
    List Nat × List Nat × Bool :=
  let old := st.1[c]?.getD 0
  let cnt := old - 1
  let pan := st.2.2 || old == 0                      -- `-= 1` on 0
  let q := if cnt == 0 && canSend && st.2.1.length < cap then st.2.1 ++ [c] else st.2.1
  (st.1.set c cnt, q, pan)

def relFold (canSend : Bool) (cap : Nat) (st : List Nat × List Nat × Bool) (cs : List Nat) :
    List Nat × List Nat × Bool :=
  cs.foldl (relStep canSend cap) st

def underLimit (c : Cfg) (s : PState) : Bool :=
  if c.sequential then s.inflight.isEmpty
  else match c.limit with
    | none => true
    | some 0 => true
    | some l => decide (s.inflight.length < l)

/-- the answer of `fn_ready_rx.poll_recv` -/
def readyUnder (s : PState) : Under :=
  if !s.readyQ.isEmpty then .item else if !s.readyTxOpen then .none else .pending

def handOut (c : Cfg) (s : PState) (f : Nat) (rest : List Nat) : PState :=
  { s with readyQ := rest, handedOut := s.handedOut ++ [f], inflight := s.inflight ++ [f],
           panic := s.panic || (c.isMut && decide (f ∈ s.inflight)) }

def decr (n : Nat) : Nat × Bool := (n - 1, n == 0)

def mkRet (c : Cfg) (s : PState) : Ret :=
  match s.shortErr with
  | some f => .err f
  | none => .outcome (s.sRemaining == 0) s.handedOut
              ((List.range c.n).filter (fun v => decide (v ∉ s.handedOut))) s.errors

def step? (c : Cfg) (s : PState) : Action → Option PState
  | .queuerRecv =>
    if s.qDone || s.result.isSome then none else
    match s.doneQ with
    | [] => none
    | x :: rest =>
      let (qr, pan) := decr s.qRemaining
      let tx := s.readyTxOpen && qr != 0
      let r := relFold (tx && s.readyRxOpen) c.cap (s.counts, s.readyQ, s.panic || pan) (children c.D x)
      some { s with doneQ := rest, qRemaining := qr, readyTxOpen := tx, counts := r.1, readyQ := r.2.1,
                    panic := r.2.2, released := s.released ++ [x] }
  | .queuerEnd =>
    if s.qDone || s.doneTxOpen || !s.doneQ.isEmpty then none
    else some { s with qDone := true, readyTxOpen := false }
  | .schedPoll =>
    if s.sDone || s.streamEnded || !underLimit c s then none else
    let u := readyUnder s
    let (m, out) := pollNext c.strat s.im u
    let s := { s with im := m }
    match out with
    | .pending => some s
    | .endd => some { s with streamEnded := true, readyRxOpen := false }
    | .intNone => some { s with doneTxOpen := false }
    | .noInt =>
      match s.readyQ with
      | [] => none
      | f :: rest => some (handOut c s f rest)
    | .intSome =>
      match s.readyQ with
      | [] => none
      | f :: rest =>
        if c.incl then some { handOut c s f rest with closeAfter := some f }
        else some { s with readyQ := rest, dropped := some f, doneTxOpen := false }
  | .invoke f =>
    if f ∈ s.inflight ∧ f ∉ s.invoked then some { s with invoked := s.invoked ++ [f] } else none
  | .finish f ok =>
    if ¬ (f ∈ s.inflight ∧ f ∈ s.invoked) then none else
    if ok then
      let full := decide (c.cap ≤ s.doneQ.length)
      let dq := if s.doneTxOpen && !full then s.doneQ ++ [f] else s.doneQ
      let (sr, pan) := decr s.sRemaining
      some { s with inflight := s.inflight.erase f, endedOk := s.endedOk ++ [f], doneQ := dq,
                    sRemaining := sr,
                    doneTxOpen := s.doneTxOpen && sr != 0 && s.closeAfter != some f,
                    panic := s.panic || pan || (s.doneTxOpen && full) }
    else match c.errMode with
      | .none => none
      | .collect =>
        let (sr, pan) := decr s.sRemaining
        some { s with inflight := s.inflight.erase f, failed := s.failed ++ [f],
                      errors := s.errors ++ [f], doneTxOpen := false, sRemaining := sr,
                      panic := s.panic || pan || decide (c.cap ≤ s.errors.length) }
      | .shortCircuit =>
        some { s with inflight := s.inflight.erase f, failed := s.failed ++ [f], shortErr := some f,
                      doneTxOpen := false, readyRxOpen := false, sDone := true }
  | .interrupt => some { s with im := { s.im with sent := true } }
  | .schedEnd =>
    -- `fold*`: the fold state (with its `Option<Sender>`) is dropped with the scheduler block;
    -- `for_each*`: the `RwLock<Option<Sender>>` belongs to the outer function and stays as it is.
    if s.streamEnded && s.inflight.isEmpty && !s.sDone then
      some { s with sDone := true, doneTxOpen := s.doneTxOpen && !c.sequential }
    else none
  | .ret =>
    if s.sDone && s.qDone && s.result.isNone then some { s with result := some (mkRet c s) } else none

/-- every state any executor, completion order and interrupt timing can produce -/
inductive Reachable (c : Cfg) : PState → Prop
  | init : Reachable c (init c)
  | step {s s' : PState} (a : Action) : Reachable c s → step? c s a = some s' → Reachable c s'

def run (c : Cfg) (s : PState) : List Action → Option PState
  | [] => some s
  | a :: as => match step? c s a with
    | none => none
    | some s' => run c s' as

/-- `ControlFlow` of the `*_control*` wrappers: `Break` iff an error was collected or the
    state is not `Finished` -/
def Ret.isBreak : Ret → Bool
  | .outcome fin _ _ errs => !errs.isEmpty || !fin
  | .err _ => true

end FG
