/-
  Model/StreamMicro.lean — the `poll_fn` closure behind `stream()` (plain stream, fixed closure
  `drain = true`, no interrupt wrapper) at MICRO-step granularity: one poll is
  `pollBegin ; drainStep* ; readyStep`, and `FnRef` drops (other threads) may land between any two
  micro steps — i.e. DURING a poll.  `Model/StreamPoll.lean` treats a poll as one atomic step.

  The two models share code: `sRelease`, `SState.doneSenders`, `sdrop`, `sdropStream`, `decr`, `sinit`
  are used literally; `sReadyHalf` is the text of the second half of `spoll`.

  `drainStep` is exactly one `fn_done_rx.poll_recv`.  On an empty channel tokio registers the waker
  and re-checks the queue before answering `Pending`, so "see empty + register" is one atomic step.
-/
import FnGraphVerif.Model.StreamPoll
namespace FG

/-- where the consumer thread stands inside `poll_next` -/
inductive Pc
  | idle        -- not inside a poll
  | draining    -- inside `while let Poll::Ready(Some(id)) = fn_done_rx.poll_recv(cx)`
  | readyPoll   -- the done channel answered `Pending`/closed; about to `fn_ready_rx.poll_recv(cx)`
  deriving DecidableEq, Repr, Inhabited

structure MState where
  s : SState
  pc : Pc := .idle
  result : Option PollRes := none     -- what the last completed poll returned
  deriving DecidableEq, Repr, Inhabited

def minit (c : Cfg) : MState := { s := sinit c }

/-- the second half of `spoll`: `fn_ready_rx.poll_recv` and the bookkeeping of a yielded item -/
def sReadyHalf (s : SState) : SState × PollRes :=
  if s.txOpen then
    match s.readyQ with
    | f :: rest =>
      let (rem, pan) := decr s.fnsRemaining
      ({ s with readyQ := rest, yielded := s.yielded ++ [f], live := s.live ++ [f], fnsRemaining := rem,
                txOpen := rem != 0, panic := s.panic || pan }, .some f)
    | [] => ({ s with readyRxWaker := true }, .pending)   -- the stream holds a ready sender itself
  else (s, .none)

inductive MAction
  | pollBegin
  | drainStep
  | readyStep
  | drop (f : Nat)
  | dropStream
  deriving DecidableEq, Repr, Inhabited

def mstep? (c : Cfg) (m : MState) : MAction → Option MState
  | .pollBegin =>
    if m.pc = .idle ∧ m.s.streamDropped = false then
      some { m with s := { m.s with wake := false }, pc := .draining }
    else none
  | .drainStep =>
    if m.pc = .draining then
      match m.s.doneQ with
      | x :: rest => some { m with s := sRelease c m.s x rest }
      | [] => some { m with s := if m.s.doneSenders then { m.s with doneRxWaker := true } else m.s,
                            pc := .readyPoll }
    else none
  | .readyStep =>
    if m.pc = .readyPoll then
      some { s := { (sReadyHalf m.s).1 with lastPending := decide ((sReadyHalf m.s).2 = .pending) },
             pc := .idle, result := some (sReadyHalf m.s).2 }
    else none
  | .drop f =>                       -- another thread: enabled at every program counter
    match sdrop c m.s f with
    | some s' => some { m with s := s' }
    | none => none
  | .dropStream =>
    if m.pc = .idle ∧ m.s.streamDropped = false then some { m with s := sdropStream m.s } else none

inductive MReachable (c : Cfg) : MState → Prop
  | init : MReachable c (minit c)
  | step {m m' : MState} (a : MAction) : MReachable c m → mstep? c m a = some m' → MReachable c m'

def mrun (c : Cfg) (m : MState) : List MAction → Option MState
  | [] => some m
  | a :: as => match mstep? c m a with
    | none => none
    | some m' => mrun c m' as

end FG
