/-
  Model/Seq.lean — the sequential API of `FnGraph`.
-/
import FnGraphVerif.Model.Build
import FnGraphVerif.Model.Topo
namespace FG

def FnGraph.iter (G : FnGraph) : List Nat := topo G.struct          -- iter
/-- `toposort()` is a `Topo` initialised on `graph_structure`; callers walk it over the public `graph` -/
def FnGraph.toposort (G : FnGraph) : List Nat := topoAll G.graph (G.graph.n + 1) [] (roots G.struct).reverse
def FnGraph.iterRev (G : FnGraph) : List Nat := topo G.structRev    -- iter_rev
def FnGraph.visitOrder (G : FnGraph) : List Nat := topo G.graph     -- map, fold, for_each, try_*
def FnGraph.iterInsertion (G : FnGraph) : List Nat := List.range G.graph.n

/-- `try_fold` / `try_for_each` with the closure failing on the ids in `fails`:
    the ids the closure was called with, and the error (the first failing id). -/
def tryVisit (order : List Nat) (fails : List Nat) : List Nat × Option Nat :=
  match order with
  | [] => ([], none)
  | x :: rest =>
    if x ∈ fails then ([x], some x)
    else let r := tryVisit rest fails; (x :: r.1, r.2)

end FG
