/-
  Model/Builder.lean — `FnGraphBuilder`: `add_fn`, `add_logic_edge`,
  `add_contains_edge`, the batch forms, all through daggy's `update_edge`.
-/
import FnGraphVerif.Model.Graph
namespace FG

/-- Data access declaration of one function (type ids as small numbers). -/
structure FnDecl where
  reads : List Nat
  writes : List Nat
  tag : Nat := 0        -- stands for "the function itself" (only `==` looks at it)
  deriving DecidableEq, Repr, Inhabited

/-- Result of one builder call. -/
inductive Res
  | ok (idx : Nat)          -- `Ok(EdgeIndex)` (or the `FnId` for `add_fn`)
  | oks (idxs : List Nat)   -- batch form `Ok([EdgeIndex; N])`
  | wouldCycle              -- `Err(WouldCycle)`
  | oob                     -- petgraph panics: node index out of bounds
  deriving DecidableEq, Repr, Inhabited

/-- daggy `Dag::update_edge(a, c, k)`:
    existing ordered pair → overwrite the weight in place;
    otherwise `add_edge`, which refuses when `c` already reaches `a`
    (`must_check_for_cycle` is a sound shortcut of exactly this test). -/
def updateEdge (g : Dag) (a c : Nat) (k : Kind) : Dag × Res :=
  if g.n ≤ a ∨ g.n ≤ c then (g, .oob) else
  match findEdge g a c with
  | some i => ({ g with edges := g.edges.set i ⟨a, c, k⟩ }, .ok i)
  | none =>
    if hasPath g c a then (g, .wouldCycle)
    else ({ g with edges := g.edges ++ [⟨a, c, k⟩] }, .ok g.edges.length)

/-- daggy `Dag::add_edge(a, c, k)` (no upsert; used for the two structure copies). -/
def addEdgeChecked (g : Dag) (a c : Nat) (k : Kind) : Option Dag :=
  if g.n ≤ a ∨ g.n ≤ c then none
  else if hasPath g c a then none
  else some { g with edges := g.edges ++ [⟨a, c, k⟩] }

structure BState where
  fns : List FnDecl
  edges : List Edge
  deriving DecidableEq, Repr, Inhabited

def BState.empty : BState := ⟨[], []⟩
def BState.graph (b : BState) : Dag := ⟨b.fns.length, b.edges⟩

inductive Op
  | addFn (d : FnDecl)
  | edge (k : Kind) (a c : Nat)                 -- add_logic_edge / add_contains_edge
  | edges (k : Kind) (ps : List (Nat × Nat))    -- add_logic_edges / add_contains_edges
  deriving DecidableEq, Repr, Inhabited

/-- batch form: `try_for_each` — stops at the first `WouldCycle`, keeping what was accepted -/
def applyEdges (k : Kind) : Dag → List (Nat × Nat) → List Nat → Dag × Res
  | g, [], acc => (g, .oks acc)
  | g, (a, c) :: ps, acc =>
    match updateEdge g a c k with
    | (g', .ok i) => applyEdges k g' ps (acc ++ [i])
    | (g', r) => (g', r)

def applyOp (b : BState) : Op → BState × Res
  | .addFn d => ({ b with fns := b.fns ++ [d] }, .ok b.fns.length)
  | .edge k a c =>
    let r := updateEdge b.graph a c k
    ({ b with edges := r.1.edges }, r.2)
  | .edges k ps =>
    let r := applyEdges k b.graph ps []
    ({ b with edges := r.1.edges }, r.2)

def applyOps (b : BState) (ops : List Op) : BState × List Res :=
  ops.foldl (fun (st : BState × List Res) op => let r := applyOp st.1 op; (r.1, st.2 ++ [r.2])) (b, [])

end FG
