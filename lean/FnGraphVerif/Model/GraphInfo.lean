/-
  Model/GraphInfo.lean — `GraphInfo::from_graph`, its serialised shape, `iter`, `iter_rev`.

  `from_graph` copies the node weights in insertion order (mapped through the
  caller's function) and `add_edges` all raw edges in index order with their
  weights; daggy's `add_edges` checks for a cycle afterwards (`none` = the
  `expect` fires).  petgraph's serde form is `(nodes, edges)` in index order.
-/
import FnGraphVerif.Model.Seq
namespace FG

structure GraphInfo where
  nodes : List Nat          -- node infos
  edges : List Edge
  deriving DecidableEq, Repr, Inhabited

def GraphInfo.dag (gi : GraphInfo) : Dag := ⟨gi.nodes.length, gi.edges⟩

/-- `is_cyclic_directed` through the Boolean path test: some edge's target reaches its source -/
def isCyclic (g : Dag) : Bool := g.edges.any (fun e => hasPath g e.tgt e.src)

def GraphInfo.fromGraph (G : FnGraph) (f : Nat → FnDecl → Nat) : Option GraphInfo :=
  if isCyclic G.graph then none
  else some ⟨(List.range G.decls.length).map (fun i => f i (declOf G.decls i)), G.graph.edges⟩

/-- serialised shape: node list, then `(source, target, weight)` triples -/
def GraphInfo.ser (gi : GraphInfo) : List Nat × List (Nat × Nat × Kind) :=
  (gi.nodes, gi.edges.map (fun e => (e.src, e.tgt, e.kind)))

def GraphInfo.deser (s : List Nat × List (Nat × Nat × Kind)) : GraphInfo :=
  ⟨s.1, s.2.map (fun t => ⟨t.1, t.2.1, t.2.2⟩)⟩

def GraphInfo.iter (gi : GraphInfo) : List Nat := topo gi.dag
def GraphInfo.iterRev (gi : GraphInfo) : List Nat := topo gi.dag.flip

end FG
