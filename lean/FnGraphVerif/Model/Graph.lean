/-
  Model/Graph.lean — graphs as petgraph stores them.

  A graph is a node count plus the list of edges in `raw_edges()` order (index
  order).  `children` / `parents` return neighbours in petgraph *adjacency
  order*: the most recently added edge first (each `add_edge` prepends to the
  per-node linked list; `update_edge` on an existing pair overwrites the weight
  in place and keeps the position).

  Import-free on purpose: this file is linked into the `driver` executable.
-/
namespace FG

inductive Kind | logic | contains | data
  deriving DecidableEq, Repr, Inhabited

structure Edge where
  src : Nat
  tgt : Nat
  kind : Kind
  deriving DecidableEq, Repr, Inhabited

structure Dag where
  n : Nat
  edges : List Edge
  deriving DecidableEq, Repr, Inhabited

/-- petgraph adjacency order: most recently added edge first. -/
def children (g : Dag) (u : Nat) : List Nat :=
  (g.edges.reverse.filter (fun e => e.src == u)).map (·.tgt)

def parents (g : Dag) (v : Nat) : List Nat :=
  (g.edges.reverse.filter (fun e => e.tgt == v)).map (·.src)

/-- The graph with every edge flipped (same edge order): `graph_structure_rev`. -/
def Dag.flip (g : Dag) : Dag :=
  { g with edges := g.edges.map (fun e => { e with src := e.tgt, tgt := e.src }) }

/-- append the members of `xs` that are not yet present (keeps first occurrences) -/
def addNew (acc : List Nat) (xs : List Nat) : List Nat :=
  xs.foldl (fun a x => if x ∈ a then a else a ++ [x]) acc

/-- the members of `xs` not in `vis`, without repetitions, in first-occurrence order -/
def newOnes (vis : List Nat) (xs : List Nat) : List Nat :=
  (addNew vis xs).drop vis.length

/-- Breadth-first closure: `vis` = everything seen, `frontier` = seen but not yet expanded.
    `fuel` = node count suffices on a well-formed graph (each round adds a new node). -/
def bfsLoop (g : Dag) : Nat → List Nat → List Nat → List Nat
  | 0, _, vis => vis
  | fuel+1, frontier, vis =>
    let nxt := newOnes vis (frontier.flatMap (children g))
    if nxt.isEmpty then vis else bfsLoop g fuel nxt (vis ++ nxt)

/-- everything reachable from `a` (including `a`) -/
def reachSet (g : Dag) (a : Nat) : List Nat := bfsLoop g g.n [a] [a]

/-- `petgraph::algo::has_path_connecting(g, a, b)` as a Boolean (reflexive). -/
def hasPath (g : Dag) (a b : Nat) : Bool := decide (b ∈ reachSet g a)

/-- index of the edge `a → c`, if any (`find_edge`); at most one exists in every graph we build -/
def findEdge (g : Dag) (a c : Nat) : Option Nat :=
  g.edges.findIdx? (fun e => e.src == a && e.tgt == c)

end FG
