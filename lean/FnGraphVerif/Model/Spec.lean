/-
  Model/Spec.lean — decidable *specification* predicates: the Boolean form of what the
  properties demand of an observed graph / trace.  The driver evaluates them on what the
  REAL implementation produced (independently of the model's prediction); the theorems in
  `Theorems/` show that the model satisfies them for every input.
-/
import FnGraphVerif.Model.Settle
import FnGraphVerif.Model.StreamPoll
import FnGraphVerif.Model.GraphInfo
namespace FG

/-- strict reachability: a path with at least one edge -/
def reachPlus (g : Dag) (u v : Nat) : Bool := (children g u).any (fun c => hasPath g c v)

def isAcyclicB (g : Dag) : Bool := g.edges.all (fun e => !hasPath g e.tgt e.src)

/-- at most one edge per ordered pair -/
def simpleB (g : Dag) : Bool :=
  (List.range g.edges.length).all (fun i =>
    (List.range g.edges.length).all (fun j =>
      i == j || !( (g.edges[i]?.map (·.src)) == (g.edges[j]?.map (·.src))
                && (g.edges[i]?.map (·.tgt)) == (g.edges[j]?.map (·.tgt)))))

/-- longest chain (number of edges) ending at each node, by `n` rounds of synchronous relaxation —
    a definition independent of the work-list loop of `RankCalc` -/
def longestRound (g : Dag) (r : List Nat) : List Nat :=
  (List.range g.n).map (fun v => ((parents g v).map (fun p => r[p]?.getD 0 + 1)).foldl max 0)

def longestChains (g : Dag) : List Nat :=
  (List.range g.n).foldl (fun r _ => longestRound g r) (List.replicate g.n 0)

/-- C11 on an observed built graph: user edges are a prefix with their kinds, the rest is `data`,
    acyclic, every conflicting pair joined by a path, data edges only between conflicting functions -/
def builtSoundB (decls : List FnDecl) (user : List Edge) (built : Dag) : Bool :=
  built.n == decls.length
  && built.edges.take user.length == user
  && (built.edges.drop user.length).all (fun e => e.kind == .data && conflict (declOf decls e.src) (declOf decls e.tgt))
  && user.all (fun e => e.kind != .data)
  && isAcyclicB built
  && (List.range built.n).all (fun u => (List.range built.n).all (fun v =>
        u == v || !conflict (declOf decls u) (declOf decls v) || hasPath built u v || hasPath built v u))

/-- C12 direction + non-redundancy on an observed built graph -/
def builtOrderB (decls : List FnDecl) (user : List Edge) (built : Dag) (ranks : List Nat) : Bool :=
  let U : Dag := ⟨built.n, user⟩
  (List.range built.n).all (fun u => (List.range built.n).all (fun v =>
      u == v || !conflict (declOf decls u) (declOf decls v) || hasPath U u v || hasPath U v u
      || (let ru := ranks[u]?.getD 0; let rv := ranks[v]?.getD 0
          let first := decide (ru < rv) || (ru == rv && decide (u < v))
          if first then hasPath built u v else hasPath built v u)))
  && (List.range built.edges.length).all (fun i =>
      match built.edges[i]? with
      | none => true
      | some e => e.kind != .data || !hasPath ⟨built.n, built.edges.eraseIdx i⟩ e.src e.tgt)

/-! ### the same two predicates for large graphs (hundreds of functions): reachability as bit masks

`reachMasks g ord` computes, for an order `ord` that lists children before their parents, one `Nat`
per node whose bit `v` says "there is a non-empty path to `v`".  `Theorems/SpecFast.lean` proves
that on an acyclic graph with a valid order this is `ReachP`, and that the `…FastB` predicates
agree with `builtSoundB` / the direction half of `builtOrderB`. -/

def reachMasks (g : Dag) (ord : List Nat) : List Nat :=
  ord.foldl (fun acc u =>
    acc.set u ((children g u).foldl (fun m c => m ||| (1 <<< c) ||| acc[c]?.getD 0) 0))
    (List.replicate g.n 0)

def maskBit (ms : List Nat) (u v : Nat) : Bool := (ms[u]?.getD 0).testBit v

def isPermOfRange (l : List Nat) (n : Nat) : Bool :=
  l.length == n && (List.range n).all (fun v => decide (v ∈ l))

def idxOf (l : List Nat) (x : Nat) : Nat := l.findIdx (· == x)

/-- C14: every node once, each edge's source before its target -/
def topoOrderB (g : Dag) (l : List Nat) : Bool :=
  isPermOfRange l g.n && g.edges.all (fun e => decide (idxOf l e.src < idxOf l e.tgt))

/-- `builtSoundB` with mask reachability; `topoOrd` must be a topological order of `built` (checked) -/
def builtSoundFastB (decls : List FnDecl) (user : List Edge) (built : Dag) (topoOrd : List Nat) : Bool :=
  let ms := reachMasks built topoOrd.reverse
  built.n == decls.length
  && built.edges.take user.length == user
  && (built.edges.drop user.length).all (fun e => e.kind == .data && conflict (declOf decls e.src) (declOf decls e.tgt))
  && user.all (fun e => e.kind != .data)
  && topoOrderB built topoOrd
  && (List.range built.n).all (fun u => (List.range built.n).all (fun v =>
        u == v || !conflict (declOf decls u) (declOf decls v) || maskBit ms u v || maskBit ms v u))

/-- the direction half of `builtOrderB` with mask reachability (non-redundancy is not checked here) -/
def builtDirectionFastB (decls : List FnDecl) (user : List Edge) (built : Dag) (ranks : List Nat)
    (topoOrd userTopoOrd : List Nat) : Bool :=
  let U : Dag := ⟨built.n, user⟩
  let ms := reachMasks built topoOrd.reverse
  let us := reachMasks U userTopoOrd.reverse
  topoOrderB built topoOrd && topoOrderB U userTopoOrd
  && (List.range built.n).all (fun u => (List.range built.n).all (fun v =>
      u == v || !conflict (declOf decls u) (declOf decls v) || maskBit us u v || maskBit us v u
      || (let ru := ranks[u]?.getD 0; let rv := ranks[v]?.getD 0
          let first := decide (ru < rv) || (ru == rv && decide (u < v))
          if first then maskBit ms u v else maskBit ms v u)))

/-- C14: `try_*` = the prefix of the full order up to and including the first failing id -/
def tryPrefixB (full : List Nat) (fails seen : List Nat) (err : Option Nat) : Bool :=
  let r := tryVisit full fails
  seen == r.1 && err == r.2

def conflictInflightB (decls : List FnDecl) (infl : List Nat) (f : Nat) : Bool :=
  infl.any (fun u => u != f && conflict (declOf decls u) (declOf decls f))

end FG
