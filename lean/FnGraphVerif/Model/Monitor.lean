/-
  Model/Monitor.lean — the pure core of the correspondence driver.

  * `Ev` — what the harness observes of one run of the REAL implementation.
  * `trackFut` / `trackStream` — the model-tracking monitor: replays each observed event on the
    model (running internal model actions as far as needed) and says whether the event was an
    enabled action; at quiescent points / at return it compares the model's `settle`d state with
    what was observed.  Output: `Note.cmp facet what model impl` (equal strings = agreement).
  * `predFut` / `predStream` — the specification predicates of the properties, evaluated on the
    observed events only (no model state): `Note.prop property what holds`.

  `Theorems/MonitorSound.lean` proves that a trace accepted by `trackFut` (non-coop) IS a run of
  the model; `Theorems/TracePreds.lean` proves that every run of the model satisfies `predFut`.
  Import-free: linked into the driver executable.
-/
import FnGraphVerif.Model.Spec
namespace FG

inductive PollObs
  | some (f : Nat) | isome (f : Nat) | inone | none | pending (woken : Bool) | panic
  deriving DecidableEq, Repr, Inhabited

inductive Ev
  | intr
  | handout (f : Nat)
  | invoke (f : Nat)
  | fin (f : Nat) (ok : Bool)
  | q
  | retOutcome (finished : Bool) (proc notp errs : List Nat) (flow : String)   -- flow: cont | break | na
  | retErr (f : Nat)
  | panic
  | aborted
  | livelock
  | poll (r : PollObs)
  | drop (f : Nat) (woken : Bool)
  | other
  deriving DecidableEq, Repr, Inhabited

inductive Note
  | cmp (facet what model impl : String)
  | prop (property what : String) (holds : Bool)
  deriving DecidableEq, Repr, Inhabited

def Note.ok : Note → Bool
  | .cmp _ _ m i => m == i
  | .prop _ _ h => h

def natsText (l : List Nat) : String := ",".intercalate (l.map toString)

def PollObs.text : PollObs → String
  | .some f => s!"some {f}"
  | .isome f => s!"isome {f}"
  | .inone => "inone"
  | .none => "none"
  | .pending w => s!"pending woken={if w then 1 else 0}"
  | .panic => "panic"

def Ev.text : Ev → String
  | .intr => "intr"
  | .handout f => s!"handout {f}"
  | .invoke f => s!"invoke {f}"
  | .fin f ok => s!"end {f} {if ok then "ok" else "err"}"
  | .q => "q"
  | .retOutcome fnd p np e fl =>
    s!"ret state={if fnd then "F" else "I"} processed={natsText p} notprocessed={natsText np} errs={natsText e} flow={fl}"
  | .retErr f => s!"ret err {f}"
  | .panic => "panic"
  | .aborted => "aborted"
  | .livelock => "livelock"
  | .poll r => "poll " ++ r.text
  | .drop f w => s!"drop {f} woken={if w then 1 else 0}"
  | .other => "other"

/-- static context of one observed run -/
structure MonCtx where
  c : Cfg
  decls : List FnDecl
  userD : Dag              -- the user graph (accepted logic/contains edges), not flipped
  rev : Bool
  control : Bool           -- a `*_control*` API
  interruptible : Bool     -- a `stream*_interruptible` API
  coop : Bool              -- polled under tokio's cooperative budget
  deriving Repr, Inhabited

/-! ### model-tracking monitor, futures -/

/-- run `settle1` until `p` holds of the state (or nothing is enabled / fuel ends) -/
def advanceUntil (c : Cfg) (p : PState → Bool) : Nat → PState → PState × Bool
  | 0, s => (s, p s)
  | k+1, s =>
    if p s then (s, true) else
    match settle1 c s with
    | none => (s, false)
    | some (_, s') => advanceUntil c p k s'

structure TrackSt where
  s : PState
  realInvoked : List Nat := []
  realHandout : List Nat := []
  sawHandoutHook : Bool := false
  deriving Repr, Inhabited

def retText (r : Ret) (control : Bool) : String :=
  match r with
  | .err f => s!"ret err {f}"
  | .outcome fnd p np errs =>
    let flow := if control then (if r.isBreak then "break" else "cont") else "na"
    (Ev.retOutcome fnd p np (errs.mergeSort (· ≤ ·)) flow).text

def trackFuel (c : Cfg) : Nat := settleFuel c + 8

/-- one observed event of a future-style run, replayed on the model -/
def trackFut (x : MonCtx) (t : TrackSt) (e : Ev) : TrackSt × List Note :=
  let c := x.c
  let fuel := trackFuel c
  let wh := e.text
  match e with
  | .intr => ({ t with s := (step? c t.s .interrupt).getD t.s }, [])
  | .handout f =>
    let before := t.s.handedOut.length
    -- Under tokio's cooperative budget a done notification can be deferred behind that of a function
    -- that completed later, so the ready queue order is the order of the SENDS, which the harness
    -- cannot see.  In coop sessions the monitor follows the real hand-out order among the functions
    -- that are ready in the model; the FIFO order itself is pinned by the non-coop sessions.
    let s0 := if x.coop then
        let sq := (advanceUntil c (fun s => s.doneQ.isEmpty || s.qDone) fuel t.s).1
        if f ∈ sq.readyQ then { sq with readyQ := f :: sq.readyQ.erase f } else sq
      else t.s
    let r := advanceUntil c (fun s => decide (before < s.handedOut.length)) fuel s0
    let got := if r.2 then natsText (r.1.handedOut.drop before) else "none-enabled"
    ({ t with s := r.1, realHandout := t.realHandout ++ [f], sawHandoutHook := true },
     [.cmp "R-step" wh got (toString f)])
  | .invoke f =>
    let r : PState × Bool :=
      if f ∈ t.s.inflight ∧ f ∉ t.s.invoked then ((step? c t.s (.invoke f)).getD t.s, true)
      else if f ∈ t.s.invoked ∧ (t.realInvoked.count f < t.s.invoked.count f) then (t.s, true)
      else advanceUntil c (fun s => decide (f ∈ s.invoked)) fuel t.s
    ({ t with s := r.1, realInvoked := t.realInvoked ++ [f] },
     [.cmp "R-step" wh (if r.2 then "enabled" else "not-enabled") "enabled"])
  | .fin f ok =>
    let s0 := if f ∈ t.s.invoked then t.s else (advanceUntil c (fun s => decide (f ∈ s.invoked)) fuel t.s).1
    match step? c s0 (.finish f ok) with
    | some s' => ({ t with s := s' }, [.cmp "R-step" wh "enabled" "enabled"])
    | none => ({ t with s := s0 }, [.cmp "R-step" wh "not-enabled" "enabled"])
  | .q =>
    let s' := settle c t.s
    ({ t with s := s' },
     [.cmp "R-quiesce" (wh ++ " returned") (toString s'.result.isSome) "false",
      .cmp "R-quiesce" (wh ++ " invoked") (natsText s'.invoked) (natsText t.realInvoked)]
     ++ (if t.sawHandoutHook || t.realInvoked.isEmpty then
           [.cmp "R-quiesce" (wh ++ " handedOut") (natsText s'.handedOut) (natsText t.realHandout)] else [])
     ++ [.cmp "R-quiesce" (wh ++ " panic") (toString s'.panic) "false"])
  | .retOutcome fnd p np errs fl =>
    let s' := settle c t.s
    -- errors come out of a channel in the order the failing futures got to send them, which under a
    -- cooperative budget need not be the order in which they completed: compare as sorted lists
    let implText := (Ev.retOutcome fnd p np (errs.mergeSort (· ≤ ·)) fl).text
    let modelText := match s'.result with | some r => retText r x.control | none => "not-returned"
    ({ t with s := s' }, [.cmp "R-outcome" wh modelText implText])
  | .retErr f =>
    let s' := settle c t.s
    let modelText := match s'.result with | some r => retText r x.control | none => "not-returned"
    ({ t with s := s' }, [.cmp "R-outcome" wh modelText (Ev.retErr f).text])
  | .panic => (t, [.cmp "R-quiesce" wh "no-panic" "panic"])
  | _ => (t, [])

/-! ### specification predicates, futures (observed events only) -/

structure PredSt where
  realHandout : List Nat := []    -- hook events: ids that left the ready stream
  realInvoked : List Nat := []
  realEnded : List Nat := []      -- ok or err
  realEndedOk : List Nat := []
  realFailed : List Nat := []
  intrAt : Option Nat := none     -- number of real invokes when the signal was sent
  intrQuiescent : Bool := true    -- the signal was sent at a quiescent point / before the call
  intrPre : Bool := false         -- the signal was already pending when the call began
  nEv : Nat := 0                  -- events seen so far in this run
  deriving Repr, Inhabited

def PredSt.realInflight (m : PredSt) : List Nat := m.realInvoked.filter (fun f => decide (f ∉ m.realEnded))

def boundOf (st : Strat) (incl : Bool) (pre : Bool) : Option Nat :=
  match st with
  | .finish => some (if incl && !pre then 1 else 0)
  | .pollN 0 => some (if incl && !pre then 1 else 0)
  | .pollN (k+1) => some (k+1)
  | _ => none

def sameMembers (a b : List Nat) : Bool :=
  a.all (fun x => decide (x ∈ b)) && b.all (fun x => decide (x ∈ a)) && a.length == b.length

/-- no unyielded / unstarted function has all its scheduling-graph predecessors in `done` -/
def allBlockedB (c : Cfg) (started done : List Nat) : Bool :=
  (List.range c.n).all (fun v => decide (v ∈ started) || (parents c.D v).any (fun p => decide (p ∉ done)))

/-- a panic / livelock read against the clauses of other properties that promise a return -/
def noReturnNotes (c : Cfg) (m : PredSt) (wh : String) : List Note :=
  (if m.intrAt.isNone && m.realFailed.isEmpty then [.prop "C03" (wh ++ " clean run never returns") false] else [])
  ++ (if !m.realFailed.isEmpty then [.prop "C07" (wh ++ " never returns after a failure") false] else [])
  ++ (if m.intrAt.isSome then [.prop "C08" (wh ++ " never returns after the interrupt") false] else [])
  ++ (match c.limit with
      | some (l+1) => if m.intrAt.isNone && !c.sequential then [.prop "C10" (wh ++ s!" limit {l+1} blocks completion") false] else []
      | _ => [])

def predFut (x : MonCtx) (m : PredSt) (e : Ev) : PredSt × List Note :=
  let c := x.c
  let wh := e.text
  let m1 := { m with nEv := m.nEv + 1 }
  match e with
  | .intr =>
    ({ m1 with intrAt := match m.intrAt with | none => some m.realInvoked.length | y => y,
               intrPre := if m.intrAt.isNone then m.nEv == 0 else m.intrPre }, [])
  | .handout f =>
    -- C03 (real): no second hand-out
    ({ m1 with realHandout := m.realHandout ++ [f] }, [.prop "C03" wh (decide (f ∉ m.realHandout))])
  | .invoke f =>
    let infl := m.realInflight
    let U := if x.rev then x.userD.flip else x.userD
    let nInfl := infl.length + 1
    let lim : Option Nat := if c.sequential then some 1 else match c.limit with | some 0 => none | l => l
    ({ m1 with realInvoked := m.realInvoked ++ [f] },
     [.prop "C03" wh (decide (f ∉ m.realInvoked)),
      .prop "C01" wh (!conflictInflightB x.decls infl f),
      -- C02: every ancestor through user edges (forward) / descendant (reverse) has returned ok
      .prop "C02" wh ((List.range U.n).all (fun u => !reachPlus U u f || decide (u ∈ m.realEndedOk))),
      -- C01/C02 on the built graph as well (data edges): predecessors in the scheduling graph ended
      .prop "C01" (wh ++ " (built-graph predecessors)") ((parents c.D f).all (fun p => decide (p ∈ m.realEndedOk))),
      -- C07: nothing ordered after a failed function starts
      .prop "C07" wh (m.realFailed.all (fun y => !reachPlus c.D y f)),
      -- C07 read on the declarations alone (C11 orders every conflicting pair): nothing that conflicts
      -- with a failed function starts after the failure
      .prop "C07" (wh ++ " (conflicts with a failed function)")
        (m.realFailed.all (fun y => y == f || !conflict (declOf x.decls y) (declOf x.decls f))),
      .prop "C10" wh (match lim with | some l => decide (nInfl ≤ l) | none => true)]
     ++ (match m.intrAt, boundOf c.strat c.incl m.intrPre with
         | some k, some b =>
           -- C08: bound on starts after the signal (signals sent at quiescent points or before the call)
           if m.intrQuiescent then [.prop "C08" wh (decide (m.realInvoked.length + 1 - k ≤ b))] else []
         | _, _ => []))
  | .fin f ok =>
    -- C07 ("… is EVER started"): when `f` fails, nothing ordered after it has been started before
    -- either (a run in the wrong direction starts the dependents first)
    ({ m1 with realEnded := m.realEnded ++ [f],
               realEndedOk := if ok then m.realEndedOk ++ [f] else m.realEndedOk,
               realFailed := if ok then m.realFailed else m.realFailed ++ [f] },
     if ok then [] else
       [.prop "C07" (wh ++ " (a function ordered after it was started before)")
         (m.realInvoked.all (fun g => !reachPlus c.D f g))])
  | .q =>
    -- C04 (real): pending, no wake-up, nothing in flight = deadlock; the same observation is read
    -- against the clauses of other properties that promise a return (DESIGN section 14)
    let dead := m.realInflight.isEmpty
    let cleanRun := m.intrAt.isNone && m.realFailed.isEmpty
    let unlimited := (c.sequential == false) && (match c.limit with | none => true | some 0 => true | _ => false)
    (m1,
     [.prop "C04" wh (!dead)]
     ++ (if cleanRun then [.prop "C03" (wh ++ " clean run can never hand out the rest") (!dead)] else [])
     ++ (if !m.realFailed.isEmpty then [.prop "C07" (wh ++ " never returns after a failure") (!dead)] else [])
     ++ (if m.intrAt.isSome then [.prop "C08" (wh ++ " never returns after the interrupt") (!dead)] else [])
     ++ (match c.limit with
         | some (l+1) => if m.intrAt.isNone && !c.sequential then [.prop "C10" (wh ++ s!" limit {l+1} blocks completion") (!dead)] else []
         | _ => [])
     -- C06 (real): no limit / interrupt / failure: every function whose built-graph predecessors
     -- have all returned has been started
     ++ (if cleanRun && unlimited then [.prop "C06" wh (allBlockedB c m.realInvoked m.realEndedOk)] else [])
     -- C10 (real): a limit is work-conserving: idle below the limit, every ready function was started
     -- (otherwise a completion order in which a running function outlasts a ready one cannot happen)
     ++ (match c.limit with
         | some (l+1) =>
           if cleanRun && !c.sequential && decide (m.realInflight.length < l+1) then
             [.prop "C10" (wh ++ s!" idle below limit {l+1} with a ready function unstarted")
               (allBlockedB c m.realInvoked m.realEndedOk)] else []
         | some 0 =>
           -- C10: "0 and None mean unbounded"
           if cleanRun && !c.sequential then
             [.prop "C10" (wh ++ " limit 0 means unbounded, yet a ready function is unstarted")
               (allBlockedB c m.realInvoked m.realEndedOk)] else []
         | none => []))
  | .retErr f =>
    (m1, [.prop "C04" (wh ++ " inflight-at-return") m.realInflight.isEmpty,
          -- C07: try_fold returns the first error and invokes nothing after it
          .prop "C07" wh (m.realFailed == [f] && m.realInvoked.getLast? == some f)])
  | .retOutcome fnd proc notp errs flow =>
    (m1,
     [.prop "C04" (wh ++ " inflight-at-return") m.realInflight.isEmpty,
      .prop "C09" (wh ++ " processed=started") (proc == m.realInvoked),
      .prop "C09" (wh ++ " notprocessed") (notp == (List.range c.n).filter (fun v => decide (v ∉ proc))),
      .prop "C09" (wh ++ " state") (fnd == (proc.length == c.n)),
      .prop "C09" (wh ++ " flow") (flow == "na" || ((flow == "cont") == (fnd && errs.isEmpty))),
      .prop "C07" (wh ++ " errors") (sameMembers errs m.realFailed),
      .prop "C08" (wh ++ " started-all-reported") (m.realInvoked.all (fun f => decide (f ∈ proc)))]
     -- C03: clean run hands out everything exactly once
     ++ (if m.intrAt.isNone && m.realFailed.isEmpty then
           [.prop "C03" (wh ++ " clean-all") (isPermOfRange m.realInvoked c.n)] else [])
     -- C08: NonInterruptible / IgnoreInterruptions: a signal changes nothing
     ++ (match c.strat with
         | .non | .ignore => if m.realFailed.isEmpty then [.prop "C08" (wh ++ " noop") (isPermOfRange m.realInvoked c.n)] else []
         | _ => []))
  | .panic => (m1, [.prop "C04" wh false] ++ noReturnNotes c m wh)
  | .livelock => (m1, [.prop "C04" wh false] ++ noReturnNotes c m wh)
  | _ => (m1, [])

/-! ### streams -/

structure STrackSt where
  ss : SState
  deriving Repr, Inhabited

structure SPredSt where
  yielded : List Nat := []
  live : List Nat := []
  droppedRefs : List Nat := []
  wokenSincePoll : Bool := false
  lastPending : Bool := false
  yieldedAtIntr : Option Nat := none
  intrPre : Bool := false
  streamDropped : Bool := false
  nEv : Nat := 0
  deriving Repr, Inhabited

def pollText (out : Out) (fo : Option Nat) (wake : Bool) : String :=
  match out, fo with
  | .noInt, some f => (PollObs.some f).text
  | .intSome, some f => (PollObs.isome f).text
  | .intNone, _ => PollObs.inone.text
  | .endd, _ => PollObs.none.text
  | .pending, _ => (PollObs.pending wake).text
  | _, _ => "?"

/-- a budget-induced `Pending` + wake-up of a stream poll (not a model poll; allowed by C05) -/
def isBudgetYield (x : MonCtx) (t : STrackSt) (r : PollObs) : Bool :=
  let p := sipoll x.c true t.ss
  x.coop && r == .pending true && pollText p.2.1 p.2.2 p.1.wake != r.text

def trackStream (x : MonCtx) (t : STrackSt) (e : Ev) : STrackSt × List Note :=
  let c := x.c
  let wh := e.text
  match e with
  | .intr => ({ t with ss := { t.ss with im := { t.ss.im with sent := true } } }, [])
  | .poll r =>
    -- a budget-induced `Pending`: the real `InterruptibleStream` did poll its inner stream and got
    -- `Pending`, so its `has_pending` / interrupt bookkeeping advanced; the inner stream's own work
    -- (draining done ids) is redone by the next model poll
    if isBudgetYield x t r then
      ({ t with ss := { t.ss with im := (pollNext c.strat t.ss.im .pending).1 } }, []) else
    let p := sipoll c true t.ss
    ({ t with ss := p.1 },
     [.cmp "S-poll" wh (pollText p.2.1 p.2.2 p.1.wake) r.text,
      .cmp "S-poll" (wh ++ " panic") (toString p.1.panic) "false"])
  | .drop f w =>
    let expect := t.ss.doneRxWaker && !t.ss.streamDropped && decide (t.ss.doneQ.length < c.cap)
    ({ t with ss := (sdrop c t.ss f).getD t.ss },
     [.cmp "S-poll" wh s!"woken={if expect then 1 else 0}" s!"woken={if w then 1 else 0}"])
  | .aborted => ({ t with ss := sdropStream t.ss }, [])
  | _ => (t, [])

def predStream (x : MonCtx) (budgetYield : Bool) (m : SPredSt) (e : Ev) : SPredSt × List Note :=
  let c := x.c
  let wh := e.text
  let m1 := { m with nEv := m.nEv + 1 }
  match e with
  | .intr =>
    ({ m1 with yieldedAtIntr := match m.yieldedAtIntr with | none => some m.yielded.length | y => y,
               intrPre := if m.yieldedAtIntr.isNone then m.nEv == 0 else m.intrPre }, [])
  | .poll r =>
    if budgetYield then ({ m1 with lastPending := true, wokenSincePoll := true }, []) else
    match r with
    | .some f | .isome f =>
      let U := if x.rev then x.userD.flip else x.userD
      ({ m1 with yielded := m.yielded ++ [f], live := m.live ++ [f], lastPending := false, wokenSincePoll := false },
       [.prop "C03" wh (decide (f ∉ m.yielded)),
        .prop "C01" wh (!conflictInflightB x.decls m.live f),
        .prop "C02" wh ((List.range U.n).all (fun u => !reachPlus U u f || decide (u ∈ m.droppedRefs))),
        .prop "C01" (wh ++ " (built-graph predecessors)") ((parents c.D f).all (fun p => decide (p ∈ m.droppedRefs))),
        .prop "C05" (wh ++ " not-after-end") (decide (m.yielded.length < c.n))]
       ++ (match m.yieldedAtIntr, boundOf c.strat true m.intrPre with
           | some k0, some b => if x.interruptible then [.prop "C08" wh (decide (m.yielded.length + 1 - k0 ≤ b))] else []
           | _, _ => []))
    | .pending woken =>
      -- C05: pending without wake-up ⇒ every unyielded function still has an undropped predecessor;
      -- C03 / C06 (stream forms): a clean stream parked for good never yields the rest
      ({ m1 with lastPending := true, wokenSincePoll := woken },
       (if woken then [] else [.prop "C05" wh (allBlockedB c m.yielded m.droppedRefs)])
       ++ (if woken || m.yieldedAtIntr.isSome then [] else
             [.prop "C03" (wh ++ " clean stream can never yield the rest") (allBlockedB c m.yielded m.droppedRefs)])
       ++ (if woken || x.interruptible then [] else [.prop "C06" wh (allBlockedB c m.yielded m.droppedRefs)]))
    | .none =>
      -- plain streams end exactly after all functions were yielded
      ({ m1 with lastPending := false },
       if x.interruptible && m.yieldedAtIntr.isSome then [] else
         [.prop "C05" (wh ++ " none-iff-all") (m.yielded.length == c.n)])
    | .inone => ({ m1 with lastPending := false }, [])
    | .panic => (m1, [.prop "C05" wh false])
  | .drop f woken =>
    let m2 := { m1 with live := m.live.erase f, droppedRefs := m.droppedRefs ++ [f],
                        wokenSincePoll := m.wokenSincePoll || woken }
    -- C05: after a Pending poll, as soon as some unyielded function has all predecessors dropped a
    -- wake-up must have been signalled
    -- C03 / C06 (stream forms): the same condition seen as "a clean stream parked for good" and
    -- "idle with a released function not started"
    (m2, if m2.lastPending && !m.streamDropped then
           [.prop "C05" (wh ++ " wake-after-drop") (m2.wokenSincePoll || allBlockedB c m2.yielded m2.droppedRefs)]
           ++ (if m.yieldedAtIntr.isSome then [] else
                 [.prop "C03" (wh ++ " clean stream parked for good")
                   (m2.wokenSincePoll || allBlockedB c m2.yielded m2.droppedRefs)])
           ++ (if x.interruptible then [] else
                 [.prop "C06" (wh ++ " idle with a released function unstarted")
                   (m2.wokenSincePoll || allBlockedB c m2.yielded m2.droppedRefs)])
         else [])
  | .panic => (m1, [.prop "C05" wh false])
  | .aborted => ({ m1 with streamDropped := true }, [])
  | _ => (m1, [])

end FG
