/-
  FindingsRun.lean — kernel-checked witnesses of two of the three defects found on the pinned
  tree (DESIGN.md section 7), stated on PRE-FIX variants of the model fragments.  The model in
  `Model/` follows the code after the `fix:` commits; nothing here is used by any theorem.
  (The third witness, the `stream()` stall, is in `Findings.lean`.)
-/
import FnGraphVerif.Model.Settle
namespace FG.Findings

/-! ### 7.3 (C18): the pinned rank loop pops once per root path -/

/-- complete DAG on `k` nodes: an edge `a → b` for every `a < b` -/
def completeDag (k : Nat) : Dag :=
  ⟨k, (List.range k).flatMap (fun a => ((List.range k).filter (fun b => decide (a < b))).map (fun b => ⟨a, b, .logic⟩))⟩

def popsOld (k : Nat) : Option Nat := (rankLoop true (completeDag k) 4096 (rankInit (completeDag k))).map (·.pops)
def popsNew (k : Nat) : Option Nat := (rankCalc (completeDag k)).map (·.pops)

/-- pinned loop: 2^(k-1) pops — already more than k² at k = 7 … -/
example : popsOld 5 = some 16 ∧ popsOld 6 = some 32 ∧ popsOld 7 = some 64 ∧ popsOld 8 = some 128 := by decide +kernel
example : (7 * 7 : Nat) < 64 := by decide
/-- … fixed loop: 1 + k(k-1)/2 pops on the same graphs (within the n² of `rank_pops_le`), same ranks -/
example : popsNew 5 = some 11 ∧ popsNew 6 = some 16 ∧ popsNew 7 = some 22 ∧ popsNew 8 = some 29 := by decide +kernel
example : (rankLoop true (completeDag 6) 4096 (rankInit (completeDag 6))).map (·.ranks)
        = (rankCalc (completeDag 6)).map (·.ranks) := by decide +kernel

/-! ### 7.1 (C04): `try_for_each_concurrent_mut*` on the empty graph never returns -/

/-- the empty graph, collect mode, `mut`: the eighth `*_internal` path -/
def emptyMut : Cfg := { D := ⟨0, []⟩, counts0 := [], errMode := .collect, isMut := true }

/-- as pinned: that path forgot `if node_count == 0 { fn_done_tx.take() }` -/
def initPinned (c : Cfg) : PState := { init c with doneTxOpen := true }

/-- pinned: the run comes to rest with nothing in flight and has NOT returned — a deadlock -/
example : Quiescent emptyMut (settle emptyMut (initPinned emptyMut)) ∧
    (settle emptyMut (initPinned emptyMut)).inflight = [] ∧
    (settle emptyMut (initPinned emptyMut)).result = none := by decide +kernel

/-- fixed (`init`): the same call returns `Finished` with nothing processed -/
example : (settle emptyMut (init emptyMut)).result = some (.outcome true [] [] []) := by decide +kernel

end FG.Findings
