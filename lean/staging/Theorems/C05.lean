/-
  Theorems/C05.lean — `stream()` / `stream_with()` / `stream*_interruptible()` at poll level, with
  wakers: no lost wake-up, ends exactly at the end, never panics; plus the stream forms of
  C01 / C02 / C03.  All statements are about the closure AFTER the `fix:` commit (`drain = true`)
  and hold for every interleaving of polls, `FnRef` drops (any number between polls), interrupt
  signals and an early drop of the stream.
-/
import FnGraphVerif.Proofs.ProtoInv
import FnGraphVerif.Model.StreamPoll
namespace FG

variable {c : Cfg} {s : SState}

/-- some function is not yet yielded although the `FnRef`s of all its predecessors were dropped -/
def needsPoll (c : Cfg) (s : SState) : Prop :=
  ∃ v, v < c.n ∧ v ∉ s.yielded ∧ ∀ p ∈ parents c.D v, p ∈ s.droppedRefs

/-- **C05**: dropping `FnRef`s or the stream in any order, polling at any time: no panic -/
theorem stream_no_panic (hc : GoodCfg c) (hr : SReachable c true s) : s.panic = false := by
  sorry

/-- **C05** (no lost wake-up): whenever the consumer is parked (its last poll returned `Pending`)
    and some function has all its predecessors dropped, a wake-up has been signalled. -/
theorem no_lost_wakeup (hc : GoodCfg c) (hr : SReachable c true s) (hd : s.streamDropped = false)
    (hp : s.lastPending = true) (hn : needsPoll c s) : s.wake = true := by
  sorry

/-- **C05**: a poll that returns `Pending` without a wake-up leaves every unyielded function blocked
    by an undropped `FnRef` of a direct predecessor -/
theorem pending_not_stalled (hc : GoodCfg c) (hr : SReachable c true s) (hd : s.streamDropped = false)
    (hp : (sipoll c true s).2.1 = .pending) :
    (sipoll c true s).1.wake = true ∨
    ∀ v, v < c.n → v ∉ (sipoll c true s).1.yielded → ∃ p ∈ parents c.D v, p ∉ (sipoll c true s).1.droppedRefs := by
  sorry

/-- **C05** (progress): if some function has all predecessors dropped, the next poll of the plain
    stream does not answer `Pending` — something is yielded without any unrelated event -/
theorem poll_progress (hc : GoodCfg c) (hr : SReachable c true s) (hd : s.streamDropped = false)
    (hn : needsPoll c s) : ∃ f, (spoll c true s).2 = .some f := by
  sorry

/-- **C05**: the plain stream yields `None` exactly after all functions were yielded -/
theorem none_iff_all_yielded (hc : GoodCfg c) (hr : SReachable c true s) (hst : c.strat = .non) :
    (spoll c true s).2 = .none ↔ s.yielded.Perm (List.range c.n) := by
  sorry

/-- **C03** (stream form): nothing is queued or yielded twice -/
theorem stream_yield_nodup (hc : GoodCfg c) (hr : SReachable c true s) : (s.readyQ ++ s.yielded).Nodup := by
  sorry

/-- **C02** (stream form): a function is yielded only after the `FnRef`s of all its ancestors were dropped -/
theorem stream_yield_after_ancestors (hc : GoodCfg c) (hr : SReachable c true s) {u v : Nat}
    (hv : v ∈ s.readyQ ∨ v ∈ s.yielded) (huv : ReachP c.D u v) : u ∈ s.droppedRefs ∧ u ∉ s.live := by
  sorry

/-- **C01** (stream form): two functions ordered by the scheduling graph never have live `FnRef`s together -/
theorem stream_no_ancestor_live (hc : GoodCfg c) (hr : SReachable c true s) {u v : Nat}
    (hu : u ∈ s.live) (hv : v ∈ s.live) : ¬ ReachP c.D u v := by
  sorry

/-- **C03** (stream form): the done channel never fills, so no `try_send` of a drop is lost -/
theorem stream_channels_never_full (hc : GoodCfg c) (hr : SReachable c true s) :
    s.doneQ.length ≤ c.cap ∧ s.readyQ.length ≤ c.cap ∧
    (∀ f ∈ s.droppedRefs, s.streamDropped = false → f ∈ s.released ∨ f ∈ s.doneQ) := by
  sorry

end FG
