/-
  Theorems/C16.lean — the builder rejects exactly the edges that would close a cycle.
-/
import FnGraphVerif.Proofs.BuilderInv
namespace FG

/-- the three invariants survive every `update_edge` call, whatever its outcome -/
theorem updateEdge_good {g : Dag} (hg : GoodG g) (a c : Nat) (k : Kind) : GoodG (updateEdge g a c k).1 := by
  sorry

/-- **C16**: `WouldCycle` exactly when the target already reaches the source (self-edges included) -/
theorem updateEdge_wouldCycle_iff {g : Dag} (hg : GoodG g) {a c : Nat} (ha : a < g.n) (hcn : c < g.n) (k : Kind) :
    (updateEdge g a c k).2 = .wouldCycle ↔ Reach g c a := by
  sorry

/-- … which is exactly when adding the edge would close a cycle with the accepted edges -/
theorem wouldCycle_iff_closes_cycle {g : Dag} (hg : GoodG g) {a c : Nat} (ha : a < g.n) (hcn : c < g.n) (k : Kind) :
    (updateEdge g a c k).2 = .wouldCycle ↔ ¬ Acyclic (addE g ⟨a, c, k⟩) := by
  sorry

/-- a rejected call leaves the accepted edges intact -/
theorem updateEdge_wouldCycle_unchanged {g : Dag} {a c : Nat} {k : Kind}
    (h : (updateEdge g a c k).2 = .wouldCycle) : (updateEdge g a c k).1 = g := by
  sorry

/-- an accepted call upserts: the returned index holds `a → c` with the given kind (the most recent
    kind wins), every other edge is untouched, and at most one edge is appended -/
theorem updateEdge_ok_upsert {g : Dag} (hg : GoodG g) {a c i : Nat} {k : Kind}
    (h : (updateEdge g a c k).2 = .ok i) :
    (updateEdge g a c k).1.edges[i]? = some ⟨a, c, k⟩ ∧
    (∀ j, j ≠ i → j < g.edges.length → (updateEdge g a c k).1.edges[j]? = g.edges[j]?) ∧
    ((updateEdge g a c k).1.edges.length = g.edges.length ∨
     ((updateEdge g a c k).1.edges.length = g.edges.length + 1 ∧ i = g.edges.length)) ∧
    (updateEdge g a c k).1.n = g.n := by
  sorry

/-- batch forms: a left fold of single calls that stops at the first `WouldCycle`, keeping what was
    accepted before it -/
theorem applyEdges_cons (k : Kind) (g : Dag) (a c : Nat) (ps : List (Nat × Nat)) (acc : List Nat) :
    applyEdges k g ((a, c) :: ps) acc =
      match updateEdge g a c k with
      | (g', .ok i) => applyEdges k g' ps (acc ++ [i])
      | (g', r) => (g', r) := by
  sorry

theorem applyEdges_good {g : Dag} (hg : GoodG g) (k : Kind) (ps : List (Nat × Nat)) (acc : List Nat) :
    GoodG (applyEdges k g ps acc).1 := by
  sorry

/-- **C16**: every builder state is well-formed, has at most one edge per ordered pair, is acyclic,
    and holds only logic/contains edges -/
theorem breach_good {b : BState} (h : BReach b) :
    GoodG b.graph ∧ ∀ e ∈ b.edges, e.kind ≠ .data := by
  sorry

/-- at most one edge per ordered pair, stated on indices -/
theorem breach_pairs_unique {b : BState} (h : BReach b) {i j : Nat} {e1 e2 : Edge}
    (h1 : b.edges[i]? = some e1) (h2 : b.edges[j]? = some e2) (hs : e1.src = e2.src) (ht : e1.tgt = e2.tgt) :
    i = j := by
  sorry

end FG
