/-
  Theorems/C11.lean — `DataEdgeAugmenter::augment` never fails, keeps the user's edges as a
  prefix, adds only `Data` edges and only between conflicting functions, keeps the graph
  acyclic, orders every conflicting pair, and makes at most `n²` path checks.
-/
import FnGraphVerif.Proofs.BuilderInv
import FnGraphVerif.Model.Augment
import FnGraphVerif.Model.Spec
namespace FG

/-- what `augment` needs of its input: a good graph and ranks that rise strictly along every edge
    (which `ranks_strict` of C13 provides) -/
structure AugIn (g : Dag) (ranks : List Nat) : Prop where
  good : GoodG g
  len : ranks.length = g.n
  strict : ∀ u v, IsEdge g u v → ranks[u]?.getD 0 < ranks[v]?.getD 0

/-- position of a function in the rank-sorted order (rank first, insertion order at equal rank) -/
def posOf (n : Nat) (ranks : List Nat) (v : Nat) : Nat := idxOf (rankOrder n ranks) v

/-- the sorted order is a permutation, sorted by rank, stable -/
theorem rankOrder_spec (n : Nat) (ranks : List Nat) :
    (rankOrder n ranks).Perm (List.range n) ∧
    (∀ u v, u < n → v < n →
      (posOf n ranks u < posOf n ranks v ↔
        (ranks[u]?.getD 0 < ranks[v]?.getD 0 ∨ (ranks[u]?.getD 0 = ranks[v]?.getD 0 ∧ u < v)))) := by
  sorry

/-- **C11** (and the builder half of C01 / C06, and C18's second clause) -/
theorem augment_sound {g : Dag} {decls : List FnDecl} {ranks : List Nat} (h : AugIn g ranks) :
    (augment g decls ranks).ok = true ∧
    (augment g decls ranks).g.n = g.n ∧
    (∃ Dd, (augment g decls ranks).g.edges = g.edges ++ Dd ∧
      ∀ e ∈ Dd, e.kind = .data ∧ conflict (declOf decls e.src) (declOf decls e.tgt) = true ∧
                posOf g.n ranks e.src < posOf g.n ranks e.tgt) ∧
    GoodG (augment g decls ranks).g ∧
    (∀ u v, u < g.n → v < g.n → u ≠ v → conflict (declOf decls u) (declOf decls v) = true →
      ReachP (augment g decls ranks).g u v ∨ ReachP (augment g decls ranks).g v u) ∧
    (augment g decls ranks).checks ≤ g.n * g.n := by
  sorry

/-- every edge of the augmented graph points forward in the rank-sorted order -/
theorem augment_forward {g : Dag} {decls : List FnDecl} {ranks : List Nat} (h : AugIn g ranks) {u v : Nat}
    (he : IsEdge (augment g decls ranks).g u v) : posOf g.n ranks u < posOf g.n ranks v := by
  sorry

/-- **C06**: read/read sharing is not a conflict (a write is required on one side) -/
theorem conflict_needs_write (a b : FnDecl) (h : conflict a b = true) : a.writes ≠ [] ∨ b.writes ≠ [] := by
  sorry

theorem conflict_comm (a b : FnDecl) : conflict a b = conflict b a := by
  sorry

end FG
