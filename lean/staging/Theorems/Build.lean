/-
  Theorems/Build.lean — `FnGraphBuilder::build` as a whole (C11, first halves of C01 / C06, the
  structure facts C14 needs, and the hypotheses `GoodCfg` under which every run theorem is stated).
-/
import FnGraphVerif.Theorems.C11
import FnGraphVerif.Theorems.C13
import FnGraphVerif.Theorems.C14
import FnGraphVerif.Theorems.C16
import FnGraphVerif.Proofs.ProtoInv
import FnGraphVerif.Model.GraphInfo
namespace FG

/-- **C11**: `build` never panics: no `expect` fires and the rank loop has fuel to spare -/
theorem build_total {b : BState} (h : BReach b) : ∃ G, build b = some G := by
  sorry

/-- **C11**: the built graph keeps every function under its `FnId`, every accepted logic/contains
    edge with its kind as a prefix of the edge list, adds only `Data` edges and only between
    conflicting functions, is acyclic with at most one edge per pair, and joins every two
    conflicting functions by a directed path. -/
theorem build_sound {b : BState} (h : BReach b) {G : FnGraph} (hb : build b = some G) :
    G.decls = b.fns ∧ G.graph.n = b.fns.length ∧
    (∃ Dd, G.graph.edges = b.edges ++ Dd ∧
      ∀ e ∈ Dd, e.kind = .data ∧ conflict (declOf b.fns e.src) (declOf b.fns e.tgt) = true) ∧
    (∀ e ∈ b.edges, e.kind ≠ .data) ∧
    GoodG G.graph ∧
    (∀ u v, u < G.graph.n → v < G.graph.n → u ≠ v → conflict (declOf b.fns u) (declOf b.fns v) = true →
      ReachP G.graph u v ∨ ReachP G.graph v u) := by
  sorry

/-- the scheduling structures describe exactly the built graph; the counts are the degrees; the
    ranks are those of the user graph -/
theorem build_structs {b : BState} (h : BReach b) {G : FnGraph} (hb : build b = some G) :
    G.struct = ⟨G.graph.n, G.graph.edges⟩ ∧ G.structRev = G.graph.flip ∧
    (∀ v, G.incoming[v]?.getD 0 = (parents G.graph v).length) ∧ G.incoming.length = G.graph.n ∧
    (∀ v, G.outgoing[v]?.getD 0 = (children G.graph v).length) ∧ G.outgoing.length = G.graph.n ∧
    (∃ st, rankCalc b.graph = some st ∧ G.ranks = st.ranks ∧ G.pops = st.pops) := by
  sorry

/-- **C18**: the whole build makes at most `n²` queue pops and `n²` path checks -/
theorem build_work {b : BState} (h : BReach b) {G : FnGraph} (hb : build b = some G) :
    G.pops ≤ G.graph.n * G.graph.n ∧ G.pathChecks ≤ G.graph.n * G.graph.n := by
  sorry

/-- **C13** on the built graph -/
theorem build_ranks {b : BState} (h : BReach b) {G : FnGraph} (hb : build b = some G) :
    G.ranks.length = b.fns.length ∧ ∀ v, v < b.fns.length → IsLongestChain b.graph v (G.ranks[v]?.getD 0) := by
  sorry

/-- every run theorem applies to forward and reverse runs of every built graph -/
theorem build_goodCfg {b : BState} (h : BReach b) {G : FnGraph} (hb : build b = some G)
    (c : Cfg) (hc : (c.D = G.struct ∧ c.counts0 = G.incoming) ∨ (c.D = G.structRev ∧ c.counts0 = G.outgoing)) :
    GoodCfg c := by
  sorry

/-- **C14** on the built graph: `iter`, `toposort`, `map`/`fold`/`for_each`/`try_*` visit every function
    once after all its predecessors in the BUILT graph (data edges included); `iter_rev` after all its
    successors; insertion order is `0..n` -/
theorem build_seq {b : BState} (h : BReach b) {G : FnGraph} (hb : build b = some G) :
    topoOrderB G.graph G.iter = true ∧ topoOrderB G.graph G.toposort = true ∧
    topoOrderB G.graph G.visitOrder = true ∧ topoOrderB G.graph.flip G.iterRev = true ∧
    G.iterInsertion = List.range b.fns.length := by
  sorry

/-- **C17**: `GraphInfo::from_graph` is total on built graphs and mirrors nodes (insertion order,
    mapped through the caller's function) and edges (with kinds, `Data` included); (de)serialisation
    round-trips; `iter` / `iter_rev` are topological / reverse topological -/
theorem graphInfo_spec {b : BState} (h : BReach b) {G : FnGraph} (hb : build b = some G) (f : Nat → FnDecl → Nat) :
    ∃ gi, GraphInfo.fromGraph G f = some gi ∧
      gi.nodes = (List.range b.fns.length).map (fun i => f i (declOf b.fns i)) ∧
      gi.edges = G.graph.edges ∧
      GraphInfo.deser gi.ser = gi ∧
      topoOrderB G.graph gi.iter = true ∧ topoOrderB G.graph.flip gi.iterRev = true := by
  sorry

end FG
