/-
  Theorems/C12.lean — direction of data edges, non-redundancy, determinism, inequality.
-/
import FnGraphVerif.Theorems.Build
namespace FG

/-- **C12** (direction): two conflicting functions not ordered by logic/contains edges are ordered in
    the built graph with the lower logic rank first and, at equal rank, the earlier inserted first -/
theorem conflict_direction {b : BState} (h : BReach b) {G : FnGraph} (hb : build b = some G) {u v : Nat}
    (hu : u < b.fns.length) (hv : v < b.fns.length) (hne : u ≠ v)
    (hcf : conflict (declOf b.fns u) (declOf b.fns v) = true)
    (hnu : ¬ ReachP b.graph u v) (hnv : ¬ ReachP b.graph v u) :
    ReachP G.graph u v ↔
      (G.ranks[u]?.getD 0 < G.ranks[v]?.getD 0 ∨ (G.ranks[u]?.getD 0 = G.ranks[v]?.getD 0 ∧ u < v)) := by
  sorry

/-- **C12** (non-redundancy): no `Data` edge repeats an ordering already implied by the other edges -/
theorem data_edge_not_redundant {b : BState} (h : BReach b) {G : FnGraph} (hb : build b = some G)
    {i : Nat} {e : Edge} (hi : G.graph.edges[i]? = some e) (hk : e.kind = .data) :
    ¬ Reach ⟨G.graph.n, G.graph.edges.eraseIdx i⟩ e.src e.tgt := by
  sorry

end FG
