/-
  Theorems/C08.lean — interruption bounds.  `InterruptibleStream` is analysed alone first (for
  EVERY sequence of signal arrivals and underlying-stream answers), then composed with the run
  protocol and with the `stream*_interruptible` poll model.
-/
import FnGraphVerif.Theorems.RunSafety
import FnGraphVerif.Model.StreamPoll
namespace FG

/-- what one `InterruptibleStream` sees: a signal is placed in its channel, or it is polled while
    the underlying stream would answer `u` -/
inductive IEv
  | signal
  | poll (u : Under)
  deriving DecidableEq, Repr

/-- ghost run of the machine: `yN` / `yI` count the `NoInterrupt(item)` / `Interrupted(Some item)`
    answers given since the first signal was sent; `outs` are all answers -/
structure IG where
  m : IM := {}
  everSent : Bool := false
  yN : Nat := 0
  yI : Nat := 0
  outs : List Out := []

def istep (st : Strat) (g : IG) : IEv → IG
  | .signal => { g with m := { g.m with sent := true }, everSent := true }
  | .poll u =>
    let r := pollNext st g.m u
    { g with m := r.1,
             yN := if g.everSent && r.2 = .noInt then g.yN + 1 else g.yN,
             yI := if g.everSent && r.2 = .intSome then g.yI + 1 else g.yI,
             outs := g.outs ++ [r.2] }

def irun (st : Strat) (evs : List IEv) : IG := evs.foldl (istep st) {}

/-- **C08** `FinishCurrent` / `PollNextN(0)`: after the signal no plain item, at most one
    `Interrupted(Some _)` item — and none at all when the signal was already pending at the start -/
theorem finish_bound (st : Strat) (hst : st = .finish ∨ st = .pollN 0) (evs : List IEv) :
    (irun st evs).yN = 0 ∧ (irun st evs).yI ≤ 1 ∧
    (irun st (.signal :: evs)).yN = 0 ∧ (irun st (.signal :: evs)).yI = 0 := by
  sorry

/-- **C08** `PollNextN(n)`, `n ≥ 1`: at most `n` items after the signal (also when pre-signalled) -/
theorem pollN_bound (n : Nat) (hn : 1 ≤ n) (evs : List IEv) :
    (irun (.pollN n) evs).yN + (irun (.pollN n) evs).yI ≤ n := by
  sorry

/-- **C08**: after an `Interrupted(..)` answer the stream only ever answers end-of-stream -/
theorem ends_after_interrupted (st : Strat) (evs : List IEv) (i j : Nat) (hij : i < j)
    (hi : (irun st evs).outs[i]? = some .intSome ∨ (irun st evs).outs[i]? = some .intNone)
    (o : Out) (hj : (irun st evs).outs[j]? = some o) : o = .endd := by
  sorry

/-- **C08** `NonInterruptible` / `IgnoreInterruptions`: the wrapper is transparent whatever signals arrive -/
theorem noninterrupting_transparent (st : Strat) (hst : st = .non ∨ st = .ignore) (evs : List IEv) (u : Under) :
    (pollNext st (irun st evs).m u).2 = (match u with | .item => .noInt | .none => .endd | .pending => .pending) := by
  sorry

/-! ### composition with the run protocol -/

/-- number of functions handed out by those actions of `as` that come after the first `interrupt` -/
def handoutsAfterIntr (c : Cfg) : PState → Bool → List Action → Nat
  | _, _, [] => 0
  | s, seen, a :: as =>
    match step? c s a with
    | none => 0
    | some s' =>
      (if seen then s'.handedOut.length - s.handedOut.length else 0)
        + handoutsAfterIntr c s' (seen || a == .interrupt) as

def intrBound : Strat → Bool → Nat
  | .finish, incl => if incl then 1 else 0
  | .pollN 0, incl => if incl then 1 else 0
  | .pollN (k + 1), _ => k + 1
  | _, _ => 0

/-- **C08**: every schedule, every interrupt point: at most `intrBound` hand-outs after the signal -/
theorem handouts_after_interrupt_le (c : Cfg) (hst : c.strat = .finish ∨ ∃ k, c.strat = .pollN k)
    (as : List Action) : handoutsAfterIntr c (init c) false as ≤ intrBound c.strat c.incl := by
  sorry

/-- **C08** (signal already pending when the call begins): `FinishCurrent` / `PollNextN(0)` hand out
    nothing, `PollNextN(n)` at most `n` -/
theorem presignalled_bound (c : Cfg) (as : List Action) {s : PState}
    (h : run c (init c) (.interrupt :: as) = some s) :
    (c.strat = .finish ∨ c.strat = .pollN 0 → s.handedOut = []) ∧
    (∀ k, c.strat = .pollN (k + 1) → s.handedOut.length ≤ k + 1) := by
  sorry

/-- **C08** `NonInterruptible` / `IgnoreInterruptions`: a signal never interrupts -/
theorem noninterrupting_run (c : Cfg) (hst : c.strat = .non ∨ c.strat = .ignore) {s : PState}
    (hr : Reachable c s) :
    s.im.sig = false ∧ s.im.ian = false ∧ s.dropped = none ∧ s.closeAfter = none := by
  sorry

/-- **C08** (interruptible streams): items yielded after the signal obey the same bounds, counting
    the `Interrupted(Some _)` item, whatever the include flag -/
def yieldsAfterIntr (c : Cfg) : SState → Bool → List SAction → Nat
  | _, _, [] => 0
  | s, seen, a :: as =>
    match sstep? c true s a with
    | none => 0
    | some s' =>
      (if seen then s'.yielded.length - s.yielded.length else 0)
        + yieldsAfterIntr c s' (seen || a == .interrupt) as

theorem stream_yields_after_interrupt_le (c : Cfg) (hst : c.strat = .finish ∨ ∃ k, c.strat = .pollN k)
    (as : List SAction) : yieldsAfterIntr c (sinit c) false as ≤ intrBound c.strat true := by
  sorry

end FG
