/-
  Theorems/C13.lean — `ranks()` is the longest dependency chain ending at each function
  (and, for C18, the rank loop does polynomial work).
-/
import FnGraphVerif.Proofs.BuilderInv
import FnGraphVerif.Model.RankCalc
import FnGraphVerif.Model.Spec
namespace FG

/-- a walk with exactly `k` edges -/
inductive Walk (g : Dag) : Nat → Nat → Nat → Prop
  | nil (a) : Walk g a a 0
  | snoc {a w b k} : Walk g a w k → IsEdge g w b → Walk g a b (k + 1)

/-- `r` is the number of edges of the longest chain ending at `v` -/
def IsLongestChain (g : Dag) (v r : Nat) : Prop :=
  (∃ a, Walk g a v r) ∧ ∀ a k, Walk g a v k → k ≤ r

/-- **C13 / C18 / C11**: the rank loop never runs out of its `n² + n + 1` fuel on a good graph -/
theorem rankCalc_total {g : Dag} (hg : GoodG g) : ∃ st, rankCalc g = some st := by
  sorry

/-- **C13**: every rank is the length of the longest chain of edges ending at that function
    (0 exactly for functions without predecessors).  Kinds and access declarations do not occur. -/
theorem ranks_longest {g : Dag} (hg : GoodG g) {st : RankSt} (h : rankCalc g = some st) :
    st.ranks.length = g.n ∧ ∀ v, v < g.n → IsLongestChain g v (st.ranks[v]?.getD 0) := by
  sorry

/-- **C13**: the result does not depend on the order in which edges were added -/
theorem ranks_order_independent {g g' : Dag} (hg : GoodG g) (hg' : GoodG g') (hn : g.n = g'.n)
    (he : ∀ u v, IsEdge g u v ↔ IsEdge g' u v) {st st' : RankSt}
    (h : rankCalc g = some st) (h' : rankCalc g' = some st') : st.ranks = st'.ranks := by
  sorry

/-- the edge along which a rank is witnessed: strictly increasing along every edge -/
theorem ranks_strict {g : Dag} (hg : GoodG g) {st : RankSt} (h : rankCalc g = some st) {u v : Nat}
    (he : IsEdge g u v) : st.ranks[u]?.getD 0 < st.ranks[v]?.getD 0 := by
  sorry

/-- **C18**: the work list is popped at most `n²` times — not once per root path -/
theorem rank_pops_le {g : Dag} (hg : GoodG g) {st : RankSt} (h : rankCalc g = some st) :
    st.pops ≤ g.n * g.n := by
  sorry

/-- the independent specification used by the driver on real ranks agrees with the theorem -/
theorem longestChains_spec {g : Dag} (hg : GoodG g) :
    (longestChains g).length = g.n ∧ ∀ v, v < g.n → IsLongestChain g v ((longestChains g)[v]?.getD 0) := by
  sorry

end FG
