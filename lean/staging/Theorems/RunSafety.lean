/-
  Theorems/RunSafety.lean — property theorems about the run protocol that are safety
  properties: they hold in EVERY reachable state of `Proto`, i.e. for every graph (`GoodCfg`),
  every completion order, every poll order, every limit, every interrupt timing, every failing
  subset.  (C01 run half, C02, C03 at-most-once, C07, C09, C10; no panic for C04.)
-/
import FnGraphVerif.Proofs.ProtoSafety
namespace FG

variable {c : Cfg} {s : PState}

/-- **C02** (and the core of C01): whatever has been queued, handed out or swallowed has all its
    ancestors in the scheduling graph returned successfully. -/
theorem handout_after_ancestors (hc : GoodCfg c) (hr : Reachable c s) {u v : Nat}
    (hv : v ∈ s.readyQ ∨ v ∈ s.handedOut ∨ s.dropped = some v) (huv : ReachP c.D u v) :
    u ∈ s.endedOk := by
  sorry

/-- **C02**: a done id is only ever sent for a function that returned successfully. -/
theorem done_only_after_end (hc : GoodCfg c) (hr : Reachable c s) {x : Nat}
    (hx : x ∈ s.released ∨ x ∈ s.doneQ) : x ∈ s.endedOk ∧ x ∉ s.inflight := by
  sorry

/-- **C01** (run half): two functions ordered by the scheduling graph are never in flight together. -/
theorem no_ancestor_inflight (hc : GoodCfg c) (hr : Reachable c s) {u v : Nat}
    (hu : u ∈ s.inflight) (hv : v ∈ s.inflight) : ¬ ReachP c.D u v := by
  sorry

/-- **C01**: if the scheduling graph orders every conflicting pair (what `build` guarantees, C11),
    no two conflicting functions are in flight together. -/
theorem no_conflict_inflight (hc : GoodCfg c) (hr : Reachable c s) (decls : List FnDecl)
    (hord : ∀ u v, u < c.n → v < c.n → u ≠ v → conflict (declOf decls u) (declOf decls v) = true →
      ReachP c.D u v ∨ ReachP c.D v u)
    {u v : Nat} (hu : u ∈ s.inflight) (hv : v ∈ s.inflight) (hne : u ≠ v) :
    conflict (declOf decls u) (declOf decls v) = false := by
  sorry

/-- **C03**: nothing is queued or handed out twice. -/
theorem handout_nodup (hc : GoodCfg c) (hr : Reachable c s) :
    (s.readyQ ++ s.handedOut ++ s.dropped.toList).Nodup := by
  sorry

/-- **C03**: the closure is invoked at most once per function, and only for handed-out functions. -/
theorem invoked_nodup (hc : GoodCfg c) (hr : Reachable c s) :
    s.invoked.Nodup ∧ ∀ f ∈ s.invoked, f ∈ s.handedOut := by
  sorry

/-- **C03 / C04**: no `expect`, `usize` underflow, `try_write` failure, full channel. -/
theorem no_panic (hc : GoodCfg c) (hr : Reachable c s) : s.panic = false := by
  sorry

/-- **C03**: the ready and done channels never fill (capacity `max(1, n)` suffices). -/
theorem channels_never_full (hc : GoodCfg c) (hr : Reachable c s) :
    s.readyQ.length ≤ c.cap ∧ s.doneQ.length ≤ c.cap ∧ s.errors.length ≤ c.cap := by
  sorry

/-- **C10**: at most `limit` functions in flight (`fold*`: at most one). -/
theorem inflight_le_limit (hc : GoodCfg c) (hr : Reachable c s) :
    (c.sequential = true → s.inflight.length ≤ 1) ∧
    (c.sequential = false → ∀ l, c.limit = some (l + 1) → s.inflight.length ≤ l + 1) := by
  sorry

/-- **C07**: one error per failed function, none lost, none duplicated. -/
theorem errors_exact (hc : GoodCfg c) (hr : Reachable c s) (hm : c.errMode = .collect) :
    s.errors = s.failed ∧ s.failed.Nodup := by
  sorry

/-- **C07**: nothing ordered after a failed function is ever queued or handed out. -/
theorem no_successor_of_failed (hc : GoodCfg c) (hr : Reachable c s) {f v : Nat}
    (hf : f ∈ s.failed) (hfv : ReachP c.D f v) : v ∉ s.handedOut ∧ v ∉ s.readyQ := by
  sorry

/-- **C04 / C07**: when the call has returned nothing is in flight. -/
theorem return_no_inflight (hc : GoodCfg c) (hr : Reachable c s) (h : s.result.isSome = true) :
    s.inflight = [] := by
  sorry

/-- **C07**: `try_fold_async*` returns the first error, and no function is handed out after it
    (the scheduler is finished, so `schedPoll` is disabled for good). -/
theorem shortCircuit_first_error (hc : GoodCfg c) (hr : Reachable c s) {f : Nat}
    (hf : s.shortErr = some f) :
    c.errMode = .shortCircuit ∧ s.failed = [f] ∧ s.sDone = true ∧ step? c s .schedPoll = none ∧
    (∀ r, s.result = some r → r = .err f) := by
  sorry

/-- **C09**: the returned outcome lists exactly the hand-outs in hand-out order, the complement in
    insertion order, `Finished` iff everything was handed out; every handed-out function was invoked. -/
theorem outcome_exact (hc : GoodCfg c) (hr : Reachable c s) {fin : Bool} {p np errs : List Nat}
    (h : s.result = some (.outcome fin p np errs)) :
    p = s.handedOut ∧ np = (List.range c.n).filter (fun v => decide (v ∉ s.handedOut)) ∧
    errs = s.errors ∧ (fin = true ↔ s.handedOut.Perm (List.range c.n)) ∧
    (∀ f ∈ s.handedOut, f ∈ s.invoked) := by
  sorry

/-- **C09** (control variants): `Continue` iff `Finished` and nothing broke. -/
theorem control_continue_iff (fin : Bool) (p np errs : List Nat) :
    (Ret.outcome fin p np errs).isBreak = false ↔ (fin = true ∧ errs = []) := by
  sorry

end FG
