/-
  Theorems/C14.lean — petgraph's `Topo` visits every node exactly once, each after all its
  predecessors; `try_*` stop at the first error; the run-time preload lists every root once.
-/
import FnGraphVerif.Proofs.BuilderInv
import FnGraphVerif.Model.Spec
namespace FG

theorem flip_good {g : Dag} (hg : GoodG g) : GoodG g.flip := by
  sorry

/-- **C14**: the traversal is a permutation of all nodes … -/
theorem topo_perm {g : Dag} (hg : GoodG g) : (topo g).Perm (List.range g.n) := by
  sorry

/-- … in which every edge's source comes before its target -/
theorem topo_respects {g : Dag} (hg : GoodG g) {u v : Nat} (he : IsEdge g u v) :
    idxOf (topo g) u < idxOf (topo g) v := by
  sorry

/-- the decidable form evaluated by the driver on the real sequences -/
theorem topo_topoOrderB {g : Dag} (hg : GoodG g) : topoOrderB g (topo g) = true := by
  sorry

/-- walking a `Topo` that was initialised on one graph over another graph with the same edges
    (what `toposort()` callers do) gives the same order -/
theorem topoAll_congr {g g' : Dag} (hn : g.n = g'.n) (he : g.edges = g'.edges) :
    topoAll g (g.n + 1) [] (roots g').reverse = topo g' := by
  sorry

/-- **C14**: `try_fold` / `try_for_each` call the closure on the prefix of the order up to and
    including the first failing function, return its error, and invoke nothing afterwards -/
theorem tryVisit_spec (order fails : List Nat) :
    let r := tryVisit order fails
    (∃ rest, order = r.1 ++ rest) ∧
    (r.2 = none → r.1 = order ∧ ∀ x ∈ order, x ∉ fails) ∧
    (∀ e, r.2 = some e → e ∈ fails ∧ r.1.getLast? = some e ∧ ∀ x ∈ r.1.dropLast, x ∉ fails) := by
  sorry

/-- the run-time preload (`fns_no_predecessors`): every function without predecessors exactly once -/
theorem preload_roots {c : Cfg} (hg : GoodG c.D) (hcnt : ∀ v, c.counts0[v]?.getD 0 = (parents c.D v).length) :
    (preload c).Nodup ∧ ∀ v, v ∈ preload c ↔ (v < c.D.n ∧ parents c.D v = []) := by
  sorry

end FG
