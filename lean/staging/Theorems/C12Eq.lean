/-
  Theorems/C12Eq.lean — determinism and inequality of builds (`==`).
-/
import FnGraphVerif.Theorems.Build
namespace FG

/-- **C12** (determinism + inequality): two builds compare equal (`==`) exactly when the accepted
    builder states are the same — same functions, same accepted edges with the same kinds, in the
    same positions.  (Equal builds then have equal ranks because `build` is a function.) -/
theorem eqGraph_iff {b1 b2 : BState} (h1 : BReach b1) (h2 : BReach b2) {G1 G2 : FnGraph}
    (hb1 : build b1 = some G1) (hb2 : build b2 = some G2) :
    eqGraph G1 G2 = true ↔ b1 = b2 := by
  sorry

theorem build_deterministic {b1 b2 : BState} (h : b1 = b2) : build b1 = build b2 := by
  sorry

end FG
