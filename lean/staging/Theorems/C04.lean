/-
  Theorems/C04.lean — liveness of the run protocol: the internal actions always come to rest
  (`settle`), and at rest with nothing in flight the call HAS returned — no deadlock, for every
  graph including the empty one, every API kind, limit, strategy, include flag, failing subset,
  completion order.  Also C03 (clean run hands out everything), C06 (no needless waiting) and
  C10 (any limit still completes).
-/
import FnGraphVerif.Theorems.RunSafety
namespace FG

variable {c : Cfg} {s : PState}

/-- `settle` only performs actions of the transition system -/
theorem settle1_reachable (hr : Reachable c s) {a : Action} {s' : PState}
    (h : settle1 c s = some (a, s')) : Reachable c s' := by
  sorry

theorem settle_reachable (hr : Reachable c s) : Reachable c (settle c s) := by
  sorry

/-- the internal actions terminate: `settle` reaches a quiescent state within its fuel -/
theorem settle_quiescent (hc : GoodCfg c) (hr : Reachable c s) : Quiescent c (settle c s) := by
  sorry

/-- **C04** (deadlock freedom): quiescent and nothing in flight ⇒ the call has returned. -/
theorem deadlock_free (hc : GoodCfg c) (hr : Reachable c s) (hq : Quiescent c s)
    (hi : s.inflight = []) : s.result.isSome = true := by
  sorry

/-- **C04 / C10**: from every reachable state, letting the in-flight user futures complete (in any
    order the model picks) and running the internal actions makes the call return — for every limit,
    strategy and failing history so far. -/
theorem eventually_returns (hc : GoodCfg c) (hr : Reachable c s) :
    ∃ as s', (∀ a ∈ as, a ≠ .interrupt ∧ ∀ f, a ≠ .finish f false) ∧ run c s as = some s' ∧
      s'.result.isSome = true := by
  sorry

/-- **C03**: a run that returned without an interrupt being received and without a failure handed
    out every function (exactly once, by `handout_nodup`). -/
theorem clean_return_all (hc : GoodCfg c) (hr : Reachable c s) {r : Ret} (h : s.result = some r)
    (hni : s.im.recv = false) (hf : s.failed = []) : s.handedOut.Perm (List.range c.n) := by
  sorry

/-- **C06** (no needless waiting): unlimited, uninterrupted, no failure: at every quiescent point
    every function whose predecessors in the scheduling graph have all returned has been handed out
    (and invoked). -/
theorem maximal_progress (hc : GoodCfg c) (hr : Reachable c s) (hq : Quiescent c s)
    (hseq : c.sequential = false) (hlim : c.limit = none ∨ c.limit = some 0)
    (hni : s.im.sent = false ∧ s.im.recv = false) (hf : s.failed = [])
    {v : Nat} (hv : v < c.n) (hp : ∀ p ∈ parents c.D v, p ∈ s.endedOk) :
    v ∈ s.handedOut ∧ v ∈ s.invoked := by
  sorry

end FG
