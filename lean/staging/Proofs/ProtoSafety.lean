/-
  Proofs/ProtoSafety.lean — `Inv` is inductive: it holds initially and every action preserves it.
-/
import FnGraphVerif.Proofs.ProtoInv
namespace FG

theorem inv_init {c : Cfg} (hc : GoodCfg c) : Inv c (init c) := by
  sorry

theorem inv_step {c : Cfg} (hc : GoodCfg c) {s s' : PState} {a : Action}
    (hinv : Inv c s) (h : step? c s a = some s') : Inv c s' := by
  sorry

theorem inv_reachable {c : Cfg} (hc : GoodCfg c) {s : PState} (hr : Reachable c s) : Inv c s := by
  induction hr with
  | init => exact inv_init hc
  | step a _ h ih => exact inv_step hc ih h

end FG
