/-
  Driver/Main.lean — line-protocol driver.

  Reads the harness trace (inputs + what the REAL implementation did) on stdin.  For every case
  it (1) replays the same inputs and events on the model's executable definitions and reports
  every point where model and implementation differ (`mismatch … facet=<F>`), and
  (2) independently evaluates the decidable specification predicates of each property on the
  real trace (`propfail … prop=<Cxx>`).  One `done <id> …` line per case carries counters for the
  evidence files.
-/
import FnGraphVerif
open FG

/-! ### parsing helpers -/

def stripNl (s : String) : String := (s.splitOn "\n").headD ""

def kv (toks : List String) (key : String) : Option String :=
  (toks.find? (fun t => t.startsWith (key ++ "="))).map (fun t => (t.drop (key.length + 1)).toString)

def csvNat (s : String) : List Nat :=
  if s.isEmpty then [] else (s.splitOn ",").filterMap (fun t => t.toNat?)

def kvCsv (toks : List String) (key : String) : List Nat := csvNat ((kv toks key).getD "")

def kindOfChar (s : String) : Kind :=
  if s == "L" then .logic else if s == "C" then .contains else .data

def parseEdge (s : String) : Option Edge :=
  match s.splitOn ":" with
  | [ab, k] => match ab.splitOn "-" with
    | [a, b] => match a.toNat?, b.toNat? with
      | some a, some b => some ⟨a, b, kindOfChar k⟩
      | _, _ => none
    | _ => none
  | _ => none

def parseEdges (s : String) : List Edge :=
  if s.isEmpty then [] else (s.splitOn ",").filterMap parseEdge

def parsePairs (s : String) : List (Nat × Nat) :=
  if s.isEmpty then [] else (s.splitOn ",").filterMap (fun p =>
    match p.splitOn "-" with
    | [a, b] => match a.toNat?, b.toNat? with
      | some a, some b => some (a, b)
      | _, _ => none
    | _ => none)

def parseOp (toks : List String) : Option Op :=
  match toks with
  | _ :: "fn" :: rest =>
    some (.addFn ⟨kvCsv rest "r", kvCsv rest "w", ((kv rest "tag").bind (·.toNat?)).getD 0⟩)
  | _ :: "logic" :: a :: b :: _ => match a.toNat?, b.toNat? with
    | some a, some b => some (.edge .logic a b) | _, _ => none
  | _ :: "contains" :: a :: b :: _ => match a.toNat?, b.toNat? with
    | some a, some b => some (.edge .contains a b) | _, _ => none
  | _ :: "logics" :: rest => some (.edges .logic (parsePairs (rest.headD "")))
  | _ :: "containss" :: rest => some (.edges .contains (parsePairs (rest.headD "")))
  | _ => none

def resText : Res → String
  | .ok i => s!"ok {i}"
  | .oks l => "oks " ++ ",".intercalate (l.map toString)
  | .wouldCycle => "cycle"
  | .oob => "oob"


def kindChar : Kind → String | .logic => "L" | .contains => "C" | .data => "D"
def edgesText (l : List Edge) : String :=
  ",".intercalate (l.map (fun e => s!"{e.src}-{e.tgt}:{kindChar e.kind}"))

/-! ### output accumulator -/

structure DAcc where
  ctx : String := "build"                 -- build | first | hist (a later run on the same graph value) | pair
  out : Array String := #[]
  facets : List (String × Nat) := []      -- facet → number of comparisons made
  props : List (String × Nat) := []       -- property → number of predicate evaluations

def DAcc.bump (l : List (String × Nat)) (k : String) : List (String × Nat) :=
  match l.find? (·.1 == k) with
  | some _ => l.map (fun p => if p.1 == k then (p.1, p.2 + 1) else p)
  | none => l ++ [(k, 1)]

def DAcc.cmp (a : DAcc) (id facet what model impl : String) : DAcc :=
  let a := { a with facets := DAcc.bump a.facets (facet ++ "@" ++ a.ctx) }
  if model == impl then a
  else { a with out := a.out.push s!"mismatch id={id} facet={facet} ctx={a.ctx} at={what} model=[{model}] impl=[{impl}]" }

def DAcc.prop (a : DAcc) (id prop what : String) (holds : Bool) : DAcc :=
  let a := { a with props := DAcc.bump a.props (prop ++ "@" ++ a.ctx) }
  if holds then a else { a with out := a.out.push s!"propfail id={id} prop={prop} ctx={a.ctx} at={what}" }

def DAcc.note (a : DAcc) (s : String) : DAcc := { a with out := a.out.push s }

/-! ### the user graph as the REAL results describe it (independent of the model) -/

/-- replay the ops using the implementation's own answers: `ok i` upserts at index `i` -/
def realUserStep (st : List FnDecl × List Edge) (op : Op) (res : List String) : List FnDecl × List Edge :=
  let put (es : List Edge) (i : Nat) (e : Edge) : List Edge :=
    if i < es.length then es.set i e else es ++ [e]
  match op, res with
  | .addFn d, _ => (st.1 ++ [d], st.2)
  | .edge k a c, ["res", "ok", i] => (st.1, put st.2 (i.toNat?.getD 0) ⟨a, c, k⟩)
  | .edges k ps, ["res", "oks", is] =>
    (st.1, ((ps.zip (csvNat is)).foldl (fun es p => put es p.2 ⟨p.1.1, p.1.2, k⟩) st.2))
  | .edges k ps, ["res", "cycle"] =>
    -- accepted prefix: replay with the specification until the first rejected pair
    let rec go (es : List Edge) : List (Nat × Nat) → List Edge
      | [] => es
      | (a, c) :: rest =>
        let g : Dag := ⟨st.1.length, es⟩
        match findEdge g a c with
        | some i => go (es.set i ⟨a, c, k⟩) rest
        | none => if hasPath g c a then es else go (es ++ [⟨a, c, k⟩]) rest
    (st.1, go st.2 ps)
  | _, _ => st

/-! ### C16 specification on the real answers -/

def specEdgeRes (g : Dag) (a c : Nat) : String :=
  if g.n ≤ a ∨ g.n ≤ c then "oob"
  else match findEdge g a c with
    | some i => s!"ok {i}"
    | none => if hasPath g c a then "cycle" else s!"ok {g.edges.length}"

/-! ### run monitor -/

structure RunCfgP where
  api : String
  rev : Bool
  limit : Option Nat
  strat : Strat
  incl : Bool

def parseStrat (s : String) : Strat :=
  if s == "non" then .non else if s == "ignore" then .ignore else if s == "finish" then .finish
  else if s.startsWith "polln:" then .pollN (((s.drop 6).toString.toNat?).getD 0) else .non

def parseRunCfg (toks : List String) : RunCfgP :=
  { api := (kv toks "api").getD "", rev := (kv toks "dir") == some "rev",
    limit := (kv toks "limit").bind (·.toNat?), strat := parseStrat ((kv toks "strat").getD "non"),
    incl := (kv toks "incl") != some "0" }

def hasSub (s sub : String) : Bool := (s.splitOn sub).length > 1

def RunCfgP.isStream (r : RunCfgP) : Bool := r.api.startsWith "stream"

def mkCfg (r : RunCfgP) (struct structRev : Dag) (incoming outgoing : List Nat) : Cfg :=
  let seq := hasSub r.api "fold_async"
  let plainStream := r.api == "stream" || r.api == "stream_with"
  { D := if r.rev then structRev else struct,
    counts0 := if r.rev then outgoing else incoming,
    limit := if hasSub r.api "for_each_concurrent" then r.limit else none,
    sequential := seq,
    errMode := if r.api.startsWith "try_fold" then .shortCircuit
               else if r.api.startsWith "try_for_each" then .collect else .none,
    isMut := hasSub r.api "_mut",
    strat := if plainStream then .non else r.strat,
    incl := r.incl }

structure Mon where
  x : MonCtx
  isStream : Bool
  active : Bool := true
  t : TrackSt
  p : PredSt := {}
  st : STrackSt
  sp : SPredSt := {}

def parseEv (toks : List String) : Ev × List Note :=
  match toks with
  | ["ev", _, "intr"] => (.intr, [])
  | ["ev", _, "handout", f] => (.handout (f.toNat?.getD 0), [])
  | ["ev", _, "invoke", f] => (.invoke (f.toNat?.getD 0), [])
  | ["ev", _, "end", f, r] => (.fin (f.toNat?.getD 0) (r == "ok"), [])
  | ["ev", _, "q"] => (.q, [])
  | ["ev", _, "ret", "err", f] => (.retErr (f.toNat?.getD 0), [])
  | "ev" :: _ :: "ret" :: rest =>
    let st := (kv rest "state").getD "?"
    -- `StreamOutcomeState::NotStarted` must never escape (C09: Finished iff all processed, Interrupted otherwise)
    let notes := if st == "F" || st == "I" then [] else
      [Note.prop "C09" ("ret state=" ++ st) false, Note.cmp "R-outcome" ("ret state=" ++ st) "F|I" st]
    (.retOutcome (st == "F") (kvCsv rest "processed") (kvCsv rest "notprocessed") (kvCsv rest "errs") ((kv rest "flow").getD "na"), notes)
  | "ev" :: _ :: "panic" :: _ => (.panic, [])
  | ["ev", _, "aborted"] => (.aborted, [])
  | ["ev", _, "livelock"] => (.livelock, [])
  | ["ev", _, "poll", "some", f] => (.poll (.some (f.toNat?.getD 0)), [])
  | ["ev", _, "poll", "isome", f] => (.poll (.isome (f.toNat?.getD 0)), [])
  | ["ev", _, "poll", "inone"] => (.poll .inone, [])
  | ["ev", _, "poll", "none"] => (.poll .none, [])
  | ["ev", _, "poll", "pending", w] => (.poll (.pending (w == "woken=1")), [])
  | ["ev", _, "poll", "panic"] => (.poll .panic, [])
  | ["ev", _, "drop", f, w] => (.drop (f.toNat?.getD 0) (w == "woken=1"), [])
  | _ => (.other, [])

/-- alternately from the front and from the back -/
def mixedOrder : Nat → List Nat → List Nat
  | 0, _ => []
  | _, [] => []
  | fuel+1, x :: xs =>
    x :: (match xs.reverse with
          | [] => []
          | y :: ys => y :: mixedOrder fuel ys.reverse)

def applyNotes (id pre : String) (a : DAcc) (ns : List Note) : DAcc :=
  ns.foldl (fun a n => match n with
    | .cmp facet what model impl => a.cmp id facet (pre ++ what) model impl
    | .prop p what holds => a.prop id p (pre ++ what) holds) a

/-- one observed event: model-tracking monitor + specification predicates -/
def monEvent (id : String) (a : DAcc) (m : Mon) (toks : List String) : DAcc × Mon :=
  let (e, pn) := parseEv toks
  let pre := "ev " ++ (toks[1]?.getD "0") ++ " "
  let a := applyNotes id pre a pn
  if m.isStream then
    let by_ := match e with | .poll r => isBudgetYield m.x m.st r | _ => false
    let (st', n1) := trackStream m.x m.st e
    let (sp', n2) := predStream m.x by_ m.sp e
    let dead := match e with | .poll .panic => true | .panic => true | _ => false
    -- C03 (stream form): a stream that was not interrupted ends only after every function was yielded
    let n3 : List Note := match e with
      | .poll .none => if m.sp.yieldedAtIntr.isNone && !by_ then
          [.prop "C03" (e.text ++ " stream ended before every function was yielded") (m.sp.yielded.length == m.x.c.n)] else []
      | _ => []
    (applyNotes id pre (applyNotes id pre (applyNotes id pre a n1) n2) n3, { m with st := st', sp := sp', active := m.active && !dead })
  else
    let (t', n1) := trackFut m.x m.t e
    -- sessions with a mid-poll signal (`open:…:intr`): the lazy monitor may not have replayed an
    -- event-less `Pending` poll that precedes the signal (`track_complete` needs `IntrAtQ`), so its
    -- comparisons are recorded under facets no property depends on (DESIGN section 14)
    let n1 := if m.p.intrQuiescent then n1 else n1.map (fun n => match n with
      | .cmp facet what mo im => .cmp (facet ++ "~midpoll") what mo im
      | x => x)
    let (p', n2) := predFut m.x m.p e
    -- coop sessions after a failure: a done-send that tokio's budget parked is lost when the failing
    -- function closes the channel first, so WHICH independent functions are still released depends on
    -- where in the burst the budget ran out; the model (no budget) fixes one answer.  Comparisons are
    -- recorded under facets no property depends on; every specification predicate still applies.
    let n1 := if m.x.coop && !p'.realFailed.isEmpty then n1.map (fun n => match n with
      | .cmp facet what mo im => .cmp (if facet.endsWith "~coopfail" || facet.endsWith "~midpoll" then facet else facet ++ "~coopfail") what mo im
      | x => x) else n1
    let fin := match e with
      | .retOutcome .. => true | .retErr _ => true | .panic => true | .aborted => true | .livelock => true | _ => false
    (applyNotes id pre (applyNotes id pre a n1) n2, { m with t := t', p := p', active := m.active && !fin })

/-! ### one case -/

structure Built where
  n : Nat
  edges : List Edge
  ranks : List Nat
  pops : Nat
  checks : Nat
  incoming : List Nat
  outgoing : List Nat
  struct : List Edge
  structRev : List Edge
  nodes : List Nat

def parseBuilt (toks : List String) : Built :=
  { n := ((kv toks "n").bind (·.toNat?)).getD 0, edges := parseEdges ((kv toks "edges").getD ""),
    ranks := kvCsv toks "ranks", pops := ((kv toks "pops").bind (·.toNat?)).getD 0,
    checks := ((kv toks "checks").bind (·.toNat?)).getD 0,
    incoming := kvCsv toks "incoming", outgoing := kvCsv toks "outgoing",
    struct := parseEdges ((kv toks "struct").getD ""), structRev := parseEdges ((kv toks "structrev").getD ""),
    nodes := kvCsv toks "nodes" }

def modelOps (ops : List Op) : BState × List Res := applyOps BState.empty ops

def checkCase (lines : Array String) : Array String := Id.run do
  let toksOf (l : String) : List String := (l.splitOn " ").filter (fun t => !t.isEmpty)
  let head := toksOf (lines[0]?.getD "")
  let id := head[1]?.getD "?"
  let mut a : DAcc := {}
  let mut ops : List Op := []
  let mut ress : List (List String) := []
  let mut ops2 : List Op := []
  let mut ress2 : List (List String) := []
  let mut built : Option Built := none
  let mut builtPanic := false
  let mut eqPert := ""
  let mut mons : Array Mon := #[]
  let mut runCfgs : Array RunCfgP := #[]
  let mut inSession := false
  let mut started := false
  let mut decls : List FnDecl := []
  let mut userE : List Edge := []
  let mut modelG : Option FnGraph := none
  let mut nSessions := 0
  let mut nEvents := 0
  let mut lightCase := false
  let mut sessCoop := false
  let mut sessShared := false
  let mut carriedIM : Option IM := none
  for l in lines.toList.drop 1 do
    let t := toksOf l
    match t with
    | "op" :: _ => match parseOp t with | some o => ops := ops ++ [o] | none => pure ()
    | "res" :: _ => ress := ress ++ [t]
    | "op2" :: _ => match parseOp t with | some o => ops2 := ops2 ++ [o] | none => pure ()
    | "res2" :: _ => ress2 := ress2 ++ ["res" :: t.drop 1]
    | "built" :: "panic" :: _ =>
      builtPanic := true
      let (b, mres) := modelOps ops
      a := a.cmp id "B-accept" "results" (";".intercalate (mres.map resText)) (";".intercalate (ress.map (fun r => " ".intercalate (r.drop 1))))
      a := a.cmp id "B-edges" "build" (if (build b).isSome then "built" else "panic") "panic"
      a := a.prop id "C11" "build panics" false
    | "built" :: _ =>
      let bo := parseBuilt t
      built := some bo
      -- growth-series graphs beyond 34 functions: only the cheap specification predicates (C13, C18)
      -- are evaluated on the real data; the model replay (one path query per builder call) is skipped
      let light := decide (34 < bo.n)
      lightCase := light
      -- (1) model vs implementation
      let (b, mres) := if light then (BState.empty, []) else modelOps ops
      if !light then
        a := a.cmp id "B-accept" "results" (";".intercalate (mres.map resText)) (";".intercalate (ress.map (fun r => " ".intercalate (r.drop 1))))
      match (if light then none else build b) with
      | none => if !light then a := a.cmp id "B-edges" "build" "panic" "built"
      | some G =>
        modelG := some G
        a := a.cmp id "B-edges" "node-count" (toString G.graph.n) (toString bo.n)
        a := a.cmp id "B-edges" "edges" (edgesText G.graph.edges) (edgesText bo.edges)
        a := a.cmp id "B-ranks" "ranks" (natsText G.ranks) (natsText bo.ranks)
        a := a.cmp id "K-pops" "pops" (toString G.pops) (toString bo.pops)
        a := a.cmp id "K-checks" "checks" (toString G.pathChecks) (toString bo.checks)
        a := a.cmp id "B-sched" "incoming" (natsText G.incoming) (natsText bo.incoming)
        a := a.cmp id "B-sched" "outgoing" (natsText G.outgoing) (natsText bo.outgoing)
        a := a.cmp id "B-sched" "struct" (edgesText G.struct.edges) (edgesText bo.struct)
        a := a.cmp id "B-sched" "structrev" (edgesText G.structRev.edges) (edgesText bo.structRev)
        a := a.cmp id "B-sched" "nodes" s!"{G.struct.n},{G.structRev.n}" (natsText bo.nodes)
      -- (2) specification predicates on the REAL answers
      let mut st : List FnDecl × List Edge := ([], [])
      let mut c16 := true
      let mut c16what := ""
      for (op, r) in ops.zip ress do
        let g : Dag := ⟨st.1.length, st.2⟩
        match (if light then Op.addFn ⟨[], [], 0⟩ else op) with
        | .edge _ x y =>
          let want := specEdgeRes g x y
          let got := " ".intercalate (r.drop 1)
          if want != got then c16 := false; c16what := s!"edge {x}->{y} want={want} got={got}"
        | .edges _ ps =>
          -- batch: ok iff no pair (taken in order, on the growing graph) would cycle
          let final := realUserStep st op ["res", "cycle"]
          let allOk := ps.length == 0 || (
            let rec chk (es : List Edge) : List (Nat × Nat) → Bool
              | [] => true
              | (x, y) :: rest =>
                let g' : Dag := ⟨st.1.length, es⟩
                match findEdge g' x y with
                | some i => chk (es.set i ⟨x, y, .logic⟩) rest
                | none => if hasPath g' y x then false else chk (es ++ [⟨x, y, .logic⟩]) rest
            chk st.2 ps)
          let gotOk := (r[1]?.getD "") == "oks"
          let _ := final
          if allOk != gotOk then c16 := false; c16what := s!"batch want-ok={allOk} got={" ".intercalate (r.drop 1)}"
        | _ => pure ()
        st := realUserStep st op r
      decls := st.1
      userE := st.2
      if !light then
        a := a.prop id "C16" ("builder answers " ++ c16what) c16
        a := a.prop id "C16" "pairs unique" (simpleB ⟨decls.length, userE⟩)
      let realG : Dag := ⟨bo.n, bo.edges⟩
      let userG : Dag := ⟨decls.length, userE⟩
      -- C16 "the most recently given kind wins" / "leave those edges intact": the accepted edges,
      -- replayed from the builder's own answers with the kind of the LAST call per pair, are the
      -- prefix of the built graph's edge list
      a := a.prop id "C16" "accepted edges with most recent kinds are in the built graph" (bo.edges.take userE.length == userE)
      -- the two quadratic-in-path-queries predicates are skipped on the large growth-series graphs
      -- (C18 cases); every other case is far below the threshold
      if bo.n ≤ 34 then
        a := a.prop id "C11" "built sound" (builtSoundB decls userE realG)
        a := a.prop id "C12" "direction/non-redundant" (builtOrderB decls userE realG bo.ranks)
        -- cross-check of the mask form used for large graphs (a facet no property depends on)
        a := a.cmp id "X-fast" "built sound" (toString (builtSoundB decls userE realG)) (toString (builtSoundFastB decls userE realG (topo realG)))
      else if bo.n ≤ 400 then
        -- large graphs: the same predicates with bit-mask reachability along a topological order
        -- computed by the model's `Topo` on the REAL graph (`Theorems/SpecFast.lean`)
        let ord := topo realG
        a := a.prop id "C11" "built sound (mask form)" (builtSoundFastB decls userE realG ord)
        a := a.prop id "C12" "direction (mask form)" (builtDirectionFastB decls userE realG bo.ranks ord (topo userG))
      a := a.prop id "C06" "data edges only between conflicts" ((realG.edges.drop userE.length).all (fun e => e.kind == .data && conflict (declOf decls e.src) (declOf decls e.tgt)))
      a := a.prop id "C13" "ranks = longest chain" (bo.ranks == longestChains userG)
      a := a.prop id "C18" "pops <= n^2+n" (decide (bo.pops ≤ bo.n * bo.n + bo.n))
      a := a.prop id "C18" "path checks <= n^2" (decide (bo.checks ≤ bo.n * bo.n))
      -- C01/C02/C14 structure facts: the scheduling structures describe the built graph
      a := a.prop id "C14" "struct = graph edges" (bo.struct == bo.edges && bo.structRev == (Dag.flip realG).edges && bo.nodes == [bo.n, bo.n])
      a := a.prop id "C01" "incoming/outgoing = degrees"
        (bo.incoming == (List.range bo.n).map (fun v => (parents realG v).length)
         && bo.outgoing == (List.range bo.n).map (fun v => (children realG v).length))
    | "eqwith" :: rest => eqPert := (kv rest "pert").getD ""
    | "eqres" :: r :: rest =>
      if lightCase then
        -- large graphs: no model builds; the real answers decide C12 alone
        if r != "panic" then
          let st1 := (ops.zip ress).foldl (fun st p => realUserStep st p.1 p.2) (([], []) : List FnDecl × List Edge)
          let st2 := (ops2.zip ress2).foldl (fun st p => realUserStep st p.1 p.2) (([], []) : List FnDecl × List Edge)
          a := a.prop id "C12" s!"== iff same accepted calls (pert={eqPert})" ((r == "true") == (st1 == st2))
          if r == "true" then a := a.prop id "C12" "equal graphs have equal ranks" ((kv rest "ranks_eq") == some "true")
      else
      let (b1, _) := modelOps ops
      let (b2, _) := modelOps ops2
      match build b1, build b2 with
      | some G1, some G2 =>
        a := a.cmp id "B-eq" s!"eq pert={eqPert}" (toString (eqGraph G1 G2)) r
        -- C12: equal iff the accepted builder states are equal (real answers)
        let st1 := (ops.zip ress).foldl (fun st p => realUserStep st p.1 p.2) (([], []) : List FnDecl × List Edge)
        let st2 := (ops2.zip ress2).foldl (fun st p => realUserStep st p.1 p.2) (([], []) : List FnDecl × List Edge)
        a := a.prop id "C12" s!"== iff same accepted calls (pert={eqPert})" ((r == "true") == (st1 == st2))
        if r == "true" then a := a.prop id "C12" "equal graphs have equal ranks" ((kv rest "ranks_eq") == some "true")
      | _, _ => a := a.cmp id "B-eq" "eq build" "panic" r
    | "seq" :: rest =>
      match built with
      | none => pure ()
      | some bo =>
        let realG : Dag := ⟨bo.n, bo.edges⟩
        match modelG with
        | some G =>
          a := a.cmp id "T-seq" "iter" (natsText G.iter) (natsText (kvCsv rest "iter"))
          a := a.cmp id "T-seq" "iter_rev" (natsText G.iterRev) (natsText (kvCsv rest "iter_rev"))
          a := a.cmp id "T-seq" "toposort" (natsText G.toposort) (natsText (kvCsv rest "toposort"))
          a := a.cmp id "T-seq" "map" (natsText G.visitOrder) (natsText (kvCsv rest "map"))
          a := a.cmp id "T-seq" "fold" (natsText G.visitOrder) (natsText (kvCsv rest "fold"))
          a := a.cmp id "T-seq" "for_each" (natsText G.visitOrder) (natsText (kvCsv rest "for_each"))
          a := a.cmp id "T-seq" "insertion" (natsText G.iterInsertion) (natsText (kvCsv rest "insertion"))
        | none => pure ()
        for k in ["iter", "toposort", "map", "fold", "for_each"] do
          a := a.prop id "C14" k (topoOrderB realG (kvCsv rest k))
        a := a.prop id "C14" "iter_rev" (topoOrderB realG.flip (kvCsv rest "iter_rev"))
        a := a.prop id "C14" "insertion" (kvCsv rest "insertion" == List.range bo.n && kvCsv rest "insertion_mut" == List.range bo.n
              && kvCsv rest "insertion_idx" == (List.range bo.n).map (fun i => i * 1000 + i))
        if (kv rest "map_again").isSome then
          -- "visit every function exactly once": polled again after its end, `map` stays at the end;
          -- `iter_insertion` is double-ended and exact-size
          a := a.prop id "C14" "map stays at its end when polled again" ((kv rest "map_again") == some "0")
          a := a.prop id "C14" "insertion order from the back / from both ends / exact size"
            (kvCsv rest "insertion_rev" == (List.range bo.n).reverse && (kv rest "insertion_len") == some (toString bo.n)
             && kvCsv rest "insertion_mixed" == mixedOrder bo.n (List.range bo.n))
    | "tryseq" :: rest =>
      match built, modelG with
      | some bo, some G =>
        let fails := kvCsv rest "fails"
        let seen := kvCsv rest "seen"
        let err := (kv rest "err").bind (·.toNat?)
        let r := tryVisit G.visitOrder fails
        a := a.cmp id "T-seq" ("try " ++ (kv rest "kind").getD "") (natsText r.1 ++ "/" ++ toString r.2) (natsText seen ++ "/" ++ toString err)
        -- C14 (real): `seen` is a prefix of a topological order, stops at the first failing id
        let realG : Dag := ⟨bo.n, bo.edges⟩
        let okPrefix := seen.all (fun v => (parents realG v).all (fun p => decide (idxOf seen p < idxOf seen v)))
        let stops := match err with
          | some e => seen.getLast? == some e && (seen.dropLast).all (fun v => decide (v ∉ fails)) && decide (e ∈ fails)
          | none => seen.all (fun v => decide (v ∉ fails)) && seen.length == bo.n
        a := a.prop id "C14" ("try " ++ (kv rest "kind").getD "") (okPrefix && stops && seen.eraseDups.length == seen.length)
      | _, _ => pure ()
    | "ginfo" :: "panic" :: _ =>
      a := a.cmp id "G-info" "from_graph" "ok" "panic"
      a := a.prop id "C17" "from_graph panics" false
    | "ginfo" :: rest =>
      match built with
      | none => pure ()
      | some bo =>
        let realG : Dag := ⟨bo.n, bo.edges⟩
        let f := fun (i : Nat) (_ : FnDecl) => i * 7 + 3
        match modelG.bind (fun G => GraphInfo.fromGraph G f) with
        | some gi =>
          a := a.cmp id "G-info" "nodes" (natsText gi.nodes) (natsText (kvCsv rest "nodes"))
          a := a.cmp id "G-info" "edges" (edgesText gi.edges) ((kv rest "edges").getD "")
          a := a.cmp id "G-info" "iter" (natsText (gi.iter.map (fun i => i * 7 + 3))) (natsText (kvCsv rest "iter"))
          a := a.cmp id "G-info" "iter_rev" (natsText (gi.iterRev.map (fun i => i * 7 + 3))) (natsText (kvCsv rest "iter_rev"))
          let s := gi.ser
          a := a.cmp id "G-info" "yaml_nodes" (natsText s.1) (natsText (kvCsv rest "yaml_nodes"))
          a := a.cmp id "G-info" "yaml_edges" (edgesText (GraphInfo.deser s).edges) ((kv rest "yaml_edges").getD "")
          a := a.cmp id "G-info" "roundtrip" (toString (GraphInfo.deser s == gi)) ((kv rest "roundtrip_eq").getD "")
          -- the value read back iterates like the original
          a := a.cmp id "G-info" "back_iter" (natsText ((GraphInfo.deser s).iter.map (fun i => i * 7 + 3))) (natsText (kvCsv rest "back_iter"))
          a := a.cmp id "G-info" "back_iter_rev" (natsText ((GraphInfo.deser s).iterRev.map (fun i => i * 7 + 3))) (natsText (kvCsv rest "back_iter_rev"))
        | none => if !lightCase then a := a.cmp id "G-info" "from_graph" "panic" "ok"
        let nodes := kvCsv rest "nodes"
        let unmap := fun (l : List Nat) => l.map (fun x => (x - 3) / 7)
        a := a.prop id "C17" "nodes mapped in insertion order" (nodes == (List.range bo.n).map (fun i => i * 7 + 3))
        a := a.prop id "C17" "edges with kinds incl. data" (parseEdges ((kv rest "edges").getD "") == bo.edges)
        a := a.prop id "C17" "roundtrip" ((kv rest "roundtrip_eq") == some "true" && kvCsv rest "back_nodes" == nodes
              && parseEdges ((kv rest "back_edges").getD "") == bo.edges)
        a := a.prop id "C17" "iter topological" (topoOrderB realG (unmap (kvCsv rest "iter")))
        a := a.prop id "C17" "iter_rev reverse topological" (topoOrderB realG.flip (unmap (kvCsv rest "iter_rev")))
        a := a.prop id "C17" "deserialised value: iter topological, iter_rev reverse topological"
          (topoOrderB realG (unmap (kvCsv rest "back_iter")) && topoOrderB realG.flip (unmap (kvCsv rest "back_iter_rev")))
    | "ctx" :: c :: _ => a := { a with ctx := c }
    | "crash" :: rest =>
      -- a panic escaped the real code in one stage of the case (outside the polls the harness guards
      -- individually): counted against the property that stage belongs to, and as a difference in the
      -- stage's facet
      let stage := (kv rest "stage").getD "?"
      let (p, facet) := match stage with
        | "seq" => ("C14", "T-seq")
        | "ginfo" => ("C17", "G-info")
        | "eq" => ("C12", "B-eq")
        | "clone" => ("C11", "B-sched")
        | _ => ("C04", "R-quiesce")
      a := a.prop id p s!"the real code panics in stage {stage}: {(kv rest "msg").getD ""}" false
      a := a.cmp id facet s!"stage {stage}" "no-panic" "panic"
    | "session" :: rest =>
      inSession := true; started := false; mons := #[]; runCfgs := #[]; nSessions := nSessions + 1
      sessCoop := (kv rest "coop") == some "1"
      sessShared := (kv rest "shared") == some "1"
      a := { a with ctx := if (kv rest "k") == some "2" then "pair" else if nSessions > 1 then "hist" else "first" }
    | "run" :: _ :: rest => runCfgs := runCfgs.push (parseRunCfg rest)
    | "endsession" :: _ =>
      inSession := false
      -- a caller-owned InterruptibilityState handed to the next run with `reborrow()` keeps its
      -- received flag, its poll counter and whatever still sits in its channel
      if sessShared then
        match mons[0]? with
        | some m => carriedIM := some (if m.isStream then m.st.ss.im else m.t.s.im)
        | none => pure ()
      a := { a with ctx := "build" }
    | "ev" :: r :: rest =>
      if inSession then
        match built with
        | none => pure ()
        | some bo =>
          if !started then
            started := true
            mons := runCfgs.map (fun rc =>
              let c := mkCfg rc ⟨bo.n, bo.struct⟩ ⟨bo.n, bo.structRev⟩ bo.incoming bo.outgoing
              { x := { c := c, decls := decls, userD := ⟨decls.length, userE⟩, rev := rc.rev,
                       control := hasSub rc.api "_control", interruptible := hasSub rc.api "interruptible",
                       coop := sessCoop },
                isStream := rc.isStream, t := { s := init c }, st := { ss := sinit c } })
            if sessShared then
              match carriedIM with
              | some im0 =>
                let im1 : IM := { sent := im0.sent, recv := im0.recv, cnt := im0.cnt }
                let pending := im0.sent || im0.recv
                mons := mons.map (fun m =>
                  let exact := match m.x.c.strat with | .finish => true | .pollN 0 => true | _ => false
                  { m with t := { m.t with s := { m.t.s with im := im1 } },
                           st := { ss := { m.st.ss with im := im1 } },
                           p := if pending then { m.p with intrAt := some 0, intrPre := true, intrQuiescent := exact } else m.p,
                           sp := if pending then { m.sp with yieldedAtIntr := some 0, intrPre := exact } else m.sp })
              | none => pure ()
          let ri := r.toNat?.getD 0
          nEvents := nEvents + 1
          match mons[ri]? with
          | none => pure ()
          | some m =>
            if m.active then
              let (a', m') := monEvent id a m t
              a := a'
              mons := mons.set! ri m'
    | "do" :: acts =>
      -- a mid-poll signal (`open:…:intr`) is not at a quiescent point: C08's start bound is then
      -- stated for hand-outs (hook events), not closure invocations (DESIGN 7.4)
      if acts.any (fun x => x.endsWith ":intr") then
        mons := mons.map (fun m => { m with p := { m.p with intrQuiescent := false } })
    | _ => pure ()
  let _ := builtPanic
  let facets := " ".intercalate (a.facets.map (fun p => s!"{p.1}={p.2}"))
  let props := " ".intercalate (a.props.map (fun p => s!"{p.1}={p.2}"))
  return a.out.push s!"done id={id} sessions={nSessions} events={nEvents} n={(built.map (·.n)).getD 0} edges={(built.map (·.edges.length)).getD 0} facets[{facets}] props[{props}]"

partial def loop (h : IO.FS.Stream) (cur : Array String) : IO Unit := do
  let line ← h.getLine
  if line.isEmpty then
    if !cur.isEmpty then
      for o in checkCase cur do IO.println o
    return ()
  let l := stripNl line
  if l.startsWith "case " then
    if !cur.isEmpty then
      for o in checkCase cur do IO.println o
    loop h #[l]
  else if l == "end" then
    for o in checkCase cur do IO.println o
    loop h #[]
  else
    loop h (if cur.isEmpty then cur else cur.push l)

def main : IO Unit := do
  loop (← IO.getStdin) #[]
