/-
  Driver/Main.lean — line-protocol driver.

  Reads the harness trace (inputs + what the REAL implementation did) on stdin.  For every case
  it (1) replays the same inputs and events on the model's executable definitions and reports
  every point where model and implementation differ (`mismatch … facet=<F>`), and
  (2) independently evaluates the decidable specification predicates of each property on the
  real trace (`propfail … prop=<Cxx>`).  One `done <id> …` line per case carries counters for the
  evidence files.
-/
import FnGraphVerif
open FG

/-! ### parsing helpers -/

def stripNl (s : String) : String := (s.splitOn "\n").headD ""

def kv (toks : List String) (key : String) : Option String :=
  (toks.find? (fun t => t.startsWith (key ++ "="))).map (fun t => (t.drop (key.length + 1)).toString)

def csvNat (s : String) : List Nat :=
  if s.isEmpty then [] else (s.splitOn ",").filterMap (fun t => t.toNat?)

def kvCsv (toks : List String) (key : String) : List Nat := csvNat ((kv toks key).getD "")

def kindOfChar (s : String) : Kind :=
  if s == "L" then .logic else if s == "C" then .contains else .data

def parseEdge (s : String) : Option Edge :=
  match s.splitOn ":" with
  | [ab, k] => match ab.splitOn "-" with
    | [a, b] => match a.toNat?, b.toNat? with
      | some a, some b => some ⟨a, b, kindOfChar k⟩
      | _, _ => none
    | _ => none
  | _ => none

def parseEdges (s : String) : List Edge :=
  if s.isEmpty then [] else (s.splitOn ",").filterMap parseEdge

def parsePairs (s : String) : List (Nat × Nat) :=
  if s.isEmpty then [] else (s.splitOn ",").filterMap (fun p =>
    match p.splitOn "-" with
    | [a, b] => match a.toNat?, b.toNat? with
      | some a, some b => some (a, b)
      | _, _ => none
    | _ => none)

def parseOp (toks : List String) : Option Op :=
  match toks with
  | _ :: "fn" :: rest =>
    some (.addFn ⟨kvCsv rest "r", kvCsv rest "w", ((kv rest "tag").bind (·.toNat?)).getD 0⟩)
  | _ :: "logic" :: a :: b :: _ => match a.toNat?, b.toNat? with
    | some a, some b => some (.edge .logic a b) | _, _ => none
  | _ :: "contains" :: a :: b :: _ => match a.toNat?, b.toNat? with
    | some a, some b => some (.edge .contains a b) | _, _ => none
  | _ :: "logics" :: rest => some (.edges .logic (parsePairs (rest.headD "")))
  | _ :: "containss" :: rest => some (.edges .contains (parsePairs (rest.headD "")))
  | _ => none

def resText : Res → String
  | .ok i => s!"ok {i}"
  | .oks l => "oks " ++ ",".intercalate (l.map toString)
  | .wouldCycle => "cycle"
  | .oob => "oob"

def natsText (l : List Nat) : String := ",".intercalate (l.map toString)

def kindChar : Kind → String | .logic => "L" | .contains => "C" | .data => "D"
def edgesText (l : List Edge) : String :=
  ",".intercalate (l.map (fun e => s!"{e.src}-{e.tgt}:{kindChar e.kind}"))

/-! ### output accumulator -/

structure DAcc where
  ctx : String := "build"                 -- build | first | hist (a later run on the same graph value) | pair
  out : Array String := #[]
  facets : List (String × Nat) := []      -- facet → number of comparisons made
  props : List (String × Nat) := []       -- property → number of predicate evaluations

def DAcc.bump (l : List (String × Nat)) (k : String) : List (String × Nat) :=
  match l.find? (·.1 == k) with
  | some _ => l.map (fun p => if p.1 == k then (p.1, p.2 + 1) else p)
  | none => l ++ [(k, 1)]

def DAcc.cmp (a : DAcc) (id facet what model impl : String) : DAcc :=
  let a := { a with facets := DAcc.bump a.facets (facet ++ "@" ++ a.ctx) }
  if model == impl then a
  else { a with out := a.out.push s!"mismatch id={id} facet={facet} ctx={a.ctx} at={what} model=[{model}] impl=[{impl}]" }

def DAcc.prop (a : DAcc) (id prop what : String) (holds : Bool) : DAcc :=
  let a := { a with props := DAcc.bump a.props (prop ++ "@" ++ a.ctx) }
  if holds then a else { a with out := a.out.push s!"propfail id={id} prop={prop} ctx={a.ctx} at={what}" }

def DAcc.note (a : DAcc) (s : String) : DAcc := { a with out := a.out.push s }

/-! ### the user graph as the REAL results describe it (independent of the model) -/

/-- replay the ops using the implementation's own answers: `ok i` upserts at index `i` -/
def realUserStep (st : List FnDecl × List Edge) (op : Op) (res : List String) : List FnDecl × List Edge :=
  let put (es : List Edge) (i : Nat) (e : Edge) : List Edge :=
    if i < es.length then es.set i e else es ++ [e]
  match op, res with
  | .addFn d, _ => (st.1 ++ [d], st.2)
  | .edge k a c, ["res", "ok", i] => (st.1, put st.2 (i.toNat?.getD 0) ⟨a, c, k⟩)
  | .edges k ps, ["res", "oks", is] =>
    (st.1, ((ps.zip (csvNat is)).foldl (fun es p => put es p.2 ⟨p.1.1, p.1.2, k⟩) st.2))
  | .edges k ps, ["res", "cycle"] =>
    -- accepted prefix: replay with the specification until the first rejected pair
    let rec go (es : List Edge) : List (Nat × Nat) → List Edge
      | [] => es
      | (a, c) :: rest =>
        let g : Dag := ⟨st.1.length, es⟩
        match findEdge g a c with
        | some i => go (es.set i ⟨a, c, k⟩) rest
        | none => if hasPath g c a then es else go (es ++ [⟨a, c, k⟩]) rest
    (st.1, go st.2 ps)
  | _, _ => st

/-! ### C16 specification on the real answers -/

def specEdgeRes (g : Dag) (a c : Nat) : String :=
  if g.n ≤ a ∨ g.n ≤ c then "oob"
  else match findEdge g a c with
    | some i => s!"ok {i}"
    | none => if hasPath g c a then "cycle" else s!"ok {g.edges.length}"

/-! ### run monitor -/

structure RunCfgP where
  api : String
  rev : Bool
  limit : Option Nat
  strat : Strat
  incl : Bool

def parseStrat (s : String) : Strat :=
  if s == "non" then .non else if s == "ignore" then .ignore else if s == "finish" then .finish
  else if s.startsWith "polln:" then .pollN (((s.drop 6).toString.toNat?).getD 0) else .non

def parseRunCfg (toks : List String) : RunCfgP :=
  { api := (kv toks "api").getD "", rev := (kv toks "dir") == some "rev",
    limit := (kv toks "limit").bind (·.toNat?), strat := parseStrat ((kv toks "strat").getD "non"),
    incl := (kv toks "incl") != some "0" }

def hasSub (s sub : String) : Bool := (s.splitOn sub).length > 1

def RunCfgP.isStream (r : RunCfgP) : Bool := r.api.startsWith "stream"

def mkCfg (r : RunCfgP) (struct structRev : Dag) (incoming outgoing : List Nat) : Cfg :=
  let seq := hasSub r.api "fold_async"
  let plainStream := r.api == "stream" || r.api == "stream_with"
  { D := if r.rev then structRev else struct,
    counts0 := if r.rev then outgoing else incoming,
    limit := if hasSub r.api "for_each_concurrent" then r.limit else none,
    sequential := seq,
    errMode := if r.api.startsWith "try_fold" then .shortCircuit
               else if r.api.startsWith "try_for_each" then .collect else .none,
    isMut := hasSub r.api "_mut",
    strat := if plainStream then .non else r.strat,
    incl := r.incl }

structure Mon where
  cfg : Cfg
  rc : RunCfgP
  s : PState                 -- future runs
  ss : SState                -- stream runs
  active : Bool := true
  realInvoked : List Nat := []
  realHandout : List Nat := []
  realEnded : List Nat := []      -- ok or err
  realEndedOk : List Nat := []
  realFailed : List Nat := []
  intrAt : Option Nat := none     -- number of real invokes when the signal was sent
  intrQuiescent : Bool := true    -- the signal was sent at a quiescent point / before the call
  sawHandoutHook : Bool := false
  maxInflight : Nat := 0
  -- stream
  yielded : List Nat := []
  live : List Nat := []
  droppedRefs : List Nat := []
  wokenSincePoll : Bool := false
  lastPending : Bool := false
  yieldedAtIntr : Option Nat := none
  coop : Bool := false            -- polled under tokio's cooperative budget (spurious Pending + wake possible)
  nEv : Nat := 0                  -- events seen so far in this run
  intrPre : Bool := false         -- the signal was already pending when the call began

def Mon.realInflight (m : Mon) : List Nat := m.realInvoked.filter (fun f => decide (f ∉ m.realEnded))

/-- run `settle1` until `p` holds of the state (or nothing is enabled / fuel ends) -/
def advanceUntil (c : Cfg) (p : PState → Bool) : Nat → PState → PState × Bool
  | 0, s => (s, p s)
  | k+1, s =>
    if p s then (s, true) else
    match settle1 c s with
    | none => (s, false)
    | some (_, s') => advanceUntil c p k s'

def boundOf (st : Strat) (incl : Bool) (pre : Bool) : Option Nat :=
  match st with
  | .finish => some (if incl && !pre then 1 else 0)
  | .pollN 0 => some (if incl && !pre then 1 else 0)
  | .pollN (k+1) => some (k+1)
  | _ => none

def retText (r : Ret) (control : Bool) : String :=
  match r with
  | .err f => s!"ret err {f}"
  | .outcome fin p np errs =>
    let st := if fin then "F" else "I"
    let flow := if control then (if r.isBreak then "break" else "cont") else "na"
    s!"ret state={st} processed={natsText p} notprocessed={natsText np} errs={natsText (errs.mergeSort (· ≤ ·))} flow={flow}"

def sameMembers (a b : List Nat) : Bool := a.all (fun x => decide (x ∈ b)) && b.all (fun x => decide (x ∈ a)) && a.length == b.length

/-- one event of a future-style run -/
def monFut (id : String) (decls : List FnDecl) (userD builtD : Dag) (a : DAcc) (m : Mon) (toks : List String) :
    DAcc × Mon :=
  let c := m.cfg
  let fuel := settleFuel c + 8
  let wh := " ".intercalate toks
  match toks with
  | ["ev", _, "intr"] =>
    let s' := (step? c m.s .interrupt).getD m.s
    (a, { m with s := s', intrAt := match m.intrAt with | none => some m.realInvoked.length | x => x,
                 intrPre := if m.intrAt.isNone then m.nEv == 0 else m.intrPre })
  | ["ev", _, "handout", f] =>
    let f := f.toNat?.getD 0
    let before := m.s.handedOut.length
    -- Under tokio's cooperative budget a done notification (`fn_done_send*().await`) can be deferred
    -- behind that of a function that completed later, so the ready queue order is the order of the
    -- SENDS, which the harness cannot see.  In coop sessions the monitor therefore follows the real
    -- hand-out order among the functions that are ready in the model (same set, any order); the FIFO
    -- order itself is pinned by the non-coop sessions.
    let s0 := if m.coop then
        let (sq, _) := advanceUntil c (fun s => s.doneQ.isEmpty || s.qDone) fuel m.s
        if f ∈ sq.readyQ then { sq with readyQ := f :: sq.readyQ.erase f } else sq
      else m.s
    let (s', ok) := advanceUntil c (fun s => decide (before < s.handedOut.length)) fuel s0
    let got := if ok then natsText (s'.handedOut.drop before) else "none-enabled"
    let a := a.cmp id "R-step" wh got (toString f)
    -- C03 (real): no second hand-out; C10 (real)
    let a := a.prop id "C03" wh (decide (f ∉ m.realHandout))
    (a, { m with s := s', realHandout := m.realHandout ++ [f], sawHandoutHook := true })
  | ["ev", _, "invoke", f] =>
    let f := f.toNat?.getD 0
    -- model side
    let (s', ok) :=
      if f ∈ m.s.inflight ∧ f ∉ m.s.invoked then ((step? c m.s (.invoke f)).getD m.s, true)
      else if f ∈ m.s.invoked ∧ (m.realInvoked.count f < m.s.invoked.count f) then (m.s, true)
      else advanceUntil c (fun s => decide (f ∈ s.invoked)) fuel m.s
    let a := a.cmp id "R-step" wh (if ok then "enabled" else "not-enabled") "enabled"
    -- real-trace predicates
    let infl := m.realInflight
    let a := a.prop id "C03" wh (decide (f ∉ m.realInvoked))
    let a := a.prop id "C01" wh (!conflictInflightB decls infl f)
    -- C02: every ancestor through user edges (forward) / descendant (reverse) has returned ok
    let U := if m.rc.rev then userD.flip else userD
    let a := a.prop id "C02" wh ((List.range U.n).all (fun u => !reachPlus U u f || decide (u ∈ m.realEndedOk)))
    -- C01/C02 on the built graph as well (data edges): predecessors in the scheduling graph ended
    let a := a.prop id "C01" (wh ++ " (built-graph predecessors)") ((parents c.D f).all (fun p => decide (p ∈ m.realEndedOk)))
    -- C07: nothing ordered after a failed function starts
    let a := a.prop id "C07" wh (m.realFailed.all (fun x => !reachPlus c.D x f))
    -- C10
    let nInfl := infl.length + 1
    let lim : Option Nat := if c.sequential then some 1 else match c.limit with | some 0 => none | l => l
    let a := a.prop id "C10" wh (match lim with | some l => decide (nInfl ≤ l) | none => true)
    -- C08: bound on starts after the signal (signals sent at quiescent points or before the call)
    let a := match m.intrAt, boundOf c.strat c.incl m.intrPre with
      | some k, some b =>
        if m.intrQuiescent then a.prop id "C08" wh (decide (m.realInvoked.length + 1 - k ≤ b)) else a
      | _, _ => a
    (a, { m with s := s', realInvoked := m.realInvoked ++ [f], maxInflight := max m.maxInflight nInfl })
  | ["ev", _, "end", f, res] =>
    let f := f.toNat?.getD 0
    let ok := res == "ok"
    let (s0, _) := if f ∈ m.s.invoked then (m.s, true) else advanceUntil c (fun s => decide (f ∈ s.invoked)) fuel m.s
    let (s', en) := match step? c s0 (.finish f ok) with
      | some s' => (s', true)
      | none => (s0, false)
    let a := a.cmp id "R-step" wh (if en then "enabled" else "not-enabled") "enabled"
    (a, { m with s := s', realEnded := m.realEnded ++ [f],
                 realEndedOk := if ok then m.realEndedOk ++ [f] else m.realEndedOk,
                 realFailed := if ok then m.realFailed else m.realFailed ++ [f] })
  | ["ev", _, "q"] =>
    let s' := settle c m.s
    let a := a.cmp id "R-quiesce" (wh ++ " returned") (toString s'.result.isSome) "false"
    let a := a.cmp id "R-quiesce" (wh ++ " invoked") (natsText s'.invoked) (natsText m.realInvoked)
    let a := if m.sawHandoutHook || m.realInvoked.isEmpty then
        a.cmp id "R-quiesce" (wh ++ " handedOut") (natsText s'.handedOut) (natsText m.realHandout) else a
    let a := a.cmp id "R-quiesce" (wh ++ " panic") (toString s'.panic) "false"
    -- C04 (real): pending, no wake-up, nothing in flight = deadlock
    let dead := m.realInflight.isEmpty
    let a := a.prop id "C04" wh (!dead)
    -- the same observation read against the clauses of other properties that promise a return:
    -- C03 "every function has been handed out … when the call returns" (clean run that can never return),
    -- C07 "the call returns Err/Break", C08 "… and the call returns", C10 "any limit >= 1 still lets
    -- every graph run to completion"
    let cleanRun := m.intrAt.isNone && m.realFailed.isEmpty
    let a := if cleanRun then a.prop id "C03" (wh ++ " clean run can never hand out the rest") (!dead) else a
    let a := if !m.realFailed.isEmpty then a.prop id "C07" (wh ++ " never returns after a failure") (!dead) else a
    let a := if m.intrAt.isSome then a.prop id "C08" (wh ++ " never returns after the interrupt") (!dead) else a
    let a := match c.limit with
      | some (l+1) => if m.intrAt.isNone && !c.sequential then a.prop id "C10" (wh ++ s!" limit {l+1} blocks completion") (!dead) else a
      | _ => a
    -- C06 (real): no limit / interrupt / failure: every function whose built-graph predecessors
    -- have all returned has been started
    let clean := m.intrAt.isNone && m.realFailed.isEmpty &&
      (c.sequential == false) && (match c.limit with | none => true | some 0 => true | _ => false)
    let a := if clean then
        a.prop id "C06" wh ((List.range c.n).all (fun v =>
          !((parents c.D v).all (fun p => decide (p ∈ m.realEndedOk))) || decide (v ∈ m.realInvoked)))
      else a
    (a, { m with s := s' })
  | "ev" :: _ :: "ret" :: rest =>
    let s' := settle c m.s
    let control := hasSub m.rc.api "_control"
    -- errors come out of a channel in the order the failing futures got to send them, which under a
    -- cooperative budget need not be the order in which they completed: compare as sorted lists
    let rest := rest.map (fun t => if t.startsWith "errs=" then "errs=" ++ natsText ((csvNat (t.drop 5).toString).mergeSort (· ≤ ·)) else t)
    let implText := " ".intercalate ("ret" :: rest)
    let modelText := match s'.result with | some r => retText r control | none => "not-returned"
    -- `NotStarted` never escapes: the state is recomputed after the stream; treat N as reported
    let a := a.cmp id "R-outcome" wh modelText implText
    -- real-trace predicates
    let a := a.prop id "C04" (wh ++ " inflight-at-return") m.realInflight.isEmpty
    let a := match rest with
      | ["err", f] =>
        let f := f.toNat?.getD 0
        -- C07: try_fold returns the first error and invokes nothing after it
        a.prop id "C07" wh (m.realFailed == [f] && m.realInvoked.getLast? == some f)
      | _ =>
        let proc := kvCsv rest "processed"
        let notp := kvCsv rest "notprocessed"
        let errs := kvCsv rest "errs"
        let st := (kv rest "state").getD "?"
        let flow := (kv rest "flow").getD "na"
        let a := a.prop id "C09" (wh ++ " processed=started") (proc == m.realInvoked)
        let a := a.prop id "C09" (wh ++ " notprocessed") (notp == (List.range c.n).filter (fun v => decide (v ∉ proc)))
        let a := a.prop id "C09" (wh ++ " state") ((st == "F") == (proc.length == c.n))
        let a := a.prop id "C09" (wh ++ " flow") (flow == "na" || ((flow == "cont") == (st == "F" && errs.isEmpty)))
        let a := a.prop id "C07" (wh ++ " errors") (sameMembers errs m.realFailed)
        let a := a.prop id "C08" (wh ++ " started-all-reported") (m.realInvoked.all (fun f => decide (f ∈ proc)))
        -- C03: clean run hands out everything exactly once
        let a := if m.intrAt.isNone && m.realFailed.isEmpty then
            a.prop id "C03" (wh ++ " clean-all") (isPermOfRange m.realInvoked c.n) else a
        -- C08: NonInterruptible / IgnoreInterruptions: a signal changes nothing
        let a := match c.strat with
          | .non | .ignore => if m.realFailed.isEmpty then a.prop id "C08" (wh ++ " noop") (isPermOfRange m.realInvoked c.n) else a
          | _ => a
        a
    let _ := builtD
    (a, { m with s := s', active := false })
  | "ev" :: _ :: "panic" :: _ =>
    let a := a.cmp id "R-quiesce" wh "no-panic" "panic"
    let a := a.prop id "C04" wh false
    (a, { m with active := false })
  | ["ev", _, "aborted"] => (a, { m with active := false })
  | ["ev", _, "livelock"] => ((a.prop id "C04" wh false), { m with active := false })
  | _ => (a, m)

/-- one event of a stream run -/
def monStream (id : String) (decls : List FnDecl) (userD : Dag) (a : DAcc) (m : Mon) (toks : List String) :
    DAcc × Mon :=
  let c := m.cfg
  let wh := " ".intercalate toks
  let interruptible := hasSub m.rc.api "interruptible"
  match toks with
  | ["ev", _, "intr"] =>
    ((a), { m with ss := { m.ss with im := { m.ss.im with sent := true } },
                   yieldedAtIntr := match m.yieldedAtIntr with | none => some m.yielded.length | x => x,
                   intrPre := if m.yieldedAtIntr.isNone then m.nEv == 0 else m.intrPre })
  | "ev" :: _ :: "poll" :: rest =>
    let (ss', out, fo) := sipoll c true m.ss
    let modelText := match out, fo with
      | .noInt, some f => s!"some {f}"
      | .intSome, some f => s!"isome {f}"
      | .intNone, _ => "inone"
      | .endd, _ => "none"
      | .pending, _ => s!"pending woken={if ss'.wake then 1 else 0}"
      | _, _ => "?"
    let implText := " ".intercalate rest
    -- under tokio's cooperative budget a poll may answer `Pending` after scheduling a wake-up of the
    -- task although work remains (budget exhausted): allowed by C05 ("or a wake-up has been
    -- signalled"); the model has no budget, so such a poll is not a model poll
    if m.coop && implText == "pending woken=1" && modelText != implText then
      (a, { m with lastPending := true, wokenSincePoll := true })
    else
    let a := a.cmp id "S-poll" wh modelText implText
    let a := a.cmp id "S-poll" (wh ++ " panic") (toString ss'.panic) "false"
    -- real-trace predicates
    let (a, m) := match rest with
      | [k, f] =>
        if k == "some" || k == "isome" then
          let f := f.toNat?.getD 0
          let a := a.prop id "C03" wh (decide (f ∉ m.yielded))
          let a := a.prop id "C01" wh (!conflictInflightB decls m.live f)
          let U := if m.rc.rev then userD.flip else userD
          let a := a.prop id "C02" wh ((List.range U.n).all (fun u => !reachPlus U u f || decide (u ∈ m.droppedRefs)))
          let a := a.prop id "C01" (wh ++ " (built-graph predecessors)") ((parents c.D f).all (fun p => decide (p ∈ m.droppedRefs)))
          let a := a.prop id "C05" (wh ++ " not-after-end") (decide (m.yielded.length < c.n))
          let a := match m.yieldedAtIntr, boundOf c.strat true m.intrPre with
            | some k0, some b => if interruptible then a.prop id "C08" wh (decide (m.yielded.length + 1 - k0 ≤ b)) else a
            | _, _ => a
          (a, { m with yielded := m.yielded ++ [f], live := m.live ++ [f], lastPending := false, wokenSincePoll := false })
        else if k == "pending" then
          let woken := f == "woken=1"
          -- C05: pending without wake-up ⇒ every unyielded function still has an undropped predecessor
          let a := if woken then a else
            a.prop id "C05" wh ((List.range c.n).all (fun v =>
              decide (v ∈ m.yielded) || (parents c.D v).any (fun p => decide (p ∉ m.droppedRefs))))
          -- C03 (stream form): a clean stream that is parked for good never yields the rest
          let a := if woken || m.yieldedAtIntr.isSome then a else
            a.prop id "C03" (wh ++ " clean stream can never yield the rest") ((List.range c.n).all (fun v =>
              decide (v ∈ m.yielded) || (parents c.D v).any (fun p => decide (p ∉ m.droppedRefs))))
          -- C06 (stream form): same statement, counted under C06 as well
          let a := if woken || interruptible then a else
            a.prop id "C06" wh ((List.range c.n).all (fun v =>
              decide (v ∈ m.yielded) || (parents c.D v).any (fun p => decide (p ∉ m.droppedRefs))))
          (a, { m with lastPending := true, wokenSincePoll := woken })
        else (a, m)
      | ["none"] =>
        -- plain streams end exactly after all functions were yielded
        let a := if interruptible && m.yieldedAtIntr.isSome then a else
          a.prop id "C05" (wh ++ " none-iff-all") (m.yielded.length == c.n)
        (a, { m with lastPending := false })
      | ["inone"] => (a, { m with lastPending := false })
      | ["panic"] => (a.prop id "C05" wh false, { m with active := false })
      | _ => (a, m)
    (a, { m with ss := ss' })
  | ["ev", _, "drop", f, w] =>
    let f := f.toNat?.getD 0
    let expect := m.ss.doneRxWaker && !m.ss.streamDropped && decide (m.ss.doneQ.length < c.cap)
    let ss' := (sdrop c m.ss f).getD m.ss
    let a := a.cmp id "S-poll" wh s!"woken={if expect then 1 else 0}" w
    let woken := w == "woken=1"
    let m := { m with ss := ss', live := m.live.erase f, droppedRefs := m.droppedRefs ++ [f],
                      wokenSincePoll := m.wokenSincePoll || woken }
    -- C05: after a Pending poll, as soon as some unyielded function has all predecessors dropped a
    -- wake-up must have been signalled
    let a := if m.lastPending && !m.ss.streamDropped then
        a.prop id "C05" (wh ++ " wake-after-drop") (m.wokenSincePoll ||
          (List.range c.n).all (fun v => decide (v ∈ m.yielded) || (parents c.D v).any (fun p => decide (p ∉ m.droppedRefs))))
      else a
    (a, m)
  | "ev" :: _ :: "panic" :: _ => (a.prop id "C05" wh false, { m with active := false })
  | ["ev", _, "aborted"] => (a, { m with ss := sdropStream m.ss })
  | _ => (a, m)

/-! ### one case -/

structure Built where
  n : Nat
  edges : List Edge
  ranks : List Nat
  pops : Nat
  checks : Nat
  incoming : List Nat
  outgoing : List Nat
  struct : List Edge
  structRev : List Edge
  nodes : List Nat

def parseBuilt (toks : List String) : Built :=
  { n := ((kv toks "n").bind (·.toNat?)).getD 0, edges := parseEdges ((kv toks "edges").getD ""),
    ranks := kvCsv toks "ranks", pops := ((kv toks "pops").bind (·.toNat?)).getD 0,
    checks := ((kv toks "checks").bind (·.toNat?)).getD 0,
    incoming := kvCsv toks "incoming", outgoing := kvCsv toks "outgoing",
    struct := parseEdges ((kv toks "struct").getD ""), structRev := parseEdges ((kv toks "structrev").getD ""),
    nodes := kvCsv toks "nodes" }

def modelOps (ops : List Op) : BState × List Res := applyOps BState.empty ops

def checkCase (lines : Array String) : Array String := Id.run do
  let toksOf (l : String) : List String := (l.splitOn " ").filter (fun t => !t.isEmpty)
  let head := toksOf (lines[0]?.getD "")
  let id := head[1]?.getD "?"
  let mut a : DAcc := {}
  let mut ops : List Op := []
  let mut ress : List (List String) := []
  let mut ops2 : List Op := []
  let mut ress2 : List (List String) := []
  let mut built : Option Built := none
  let mut builtPanic := false
  let mut eqPert := ""
  let mut mons : Array Mon := #[]
  let mut runCfgs : Array RunCfgP := #[]
  let mut inSession := false
  let mut started := false
  let mut decls : List FnDecl := []
  let mut userE : List Edge := []
  let mut modelG : Option FnGraph := none
  let mut nSessions := 0
  let mut nEvents := 0
  let mut lightCase := false
  let mut sessCoop := false
  for l in lines.toList.drop 1 do
    let t := toksOf l
    match t with
    | "op" :: _ => match parseOp t with | some o => ops := ops ++ [o] | none => pure ()
    | "res" :: _ => ress := ress ++ [t]
    | "op2" :: _ => match parseOp t with | some o => ops2 := ops2 ++ [o] | none => pure ()
    | "res2" :: _ => ress2 := ress2 ++ ["res" :: t.drop 1]
    | "built" :: "panic" :: _ =>
      builtPanic := true
      let (b, mres) := modelOps ops
      a := a.cmp id "B-accept" "results" (";".intercalate (mres.map resText)) (";".intercalate (ress.map (fun r => " ".intercalate (r.drop 1))))
      a := a.cmp id "B-edges" "build" (if (build b).isSome then "built" else "panic") "panic"
      a := a.prop id "C11" "build panics" false
    | "built" :: _ =>
      let bo := parseBuilt t
      built := some bo
      -- growth-series graphs beyond 34 functions: only the cheap specification predicates (C13, C18)
      -- are evaluated on the real data; the model replay (one path query per builder call) is skipped
      let light := decide (34 < bo.n)
      lightCase := light
      -- (1) model vs implementation
      let (b, mres) := if light then (BState.empty, []) else modelOps ops
      if !light then
        a := a.cmp id "B-accept" "results" (";".intercalate (mres.map resText)) (";".intercalate (ress.map (fun r => " ".intercalate (r.drop 1))))
      match (if light then none else build b) with
      | none => if !light then a := a.cmp id "B-edges" "build" "panic" "built"
      | some G =>
        modelG := some G
        a := a.cmp id "B-edges" "node-count" (toString G.graph.n) (toString bo.n)
        a := a.cmp id "B-edges" "edges" (edgesText G.graph.edges) (edgesText bo.edges)
        a := a.cmp id "B-ranks" "ranks" (natsText G.ranks) (natsText bo.ranks)
        a := a.cmp id "K-pops" "pops" (toString G.pops) (toString bo.pops)
        a := a.cmp id "K-checks" "checks" (toString G.pathChecks) (toString bo.checks)
        a := a.cmp id "B-sched" "incoming" (natsText G.incoming) (natsText bo.incoming)
        a := a.cmp id "B-sched" "outgoing" (natsText G.outgoing) (natsText bo.outgoing)
        a := a.cmp id "B-sched" "struct" (edgesText G.struct.edges) (edgesText bo.struct)
        a := a.cmp id "B-sched" "structrev" (edgesText G.structRev.edges) (edgesText bo.structRev)
        a := a.cmp id "B-sched" "nodes" s!"{G.struct.n},{G.structRev.n}" (natsText bo.nodes)
      -- (2) specification predicates on the REAL answers
      let mut st : List FnDecl × List Edge := ([], [])
      let mut c16 := true
      let mut c16what := ""
      for (op, r) in ops.zip ress do
        let g : Dag := ⟨st.1.length, st.2⟩
        match (if light then Op.addFn ⟨[], [], 0⟩ else op) with
        | .edge _ x y =>
          let want := specEdgeRes g x y
          let got := " ".intercalate (r.drop 1)
          if want != got then c16 := false; c16what := s!"edge {x}->{y} want={want} got={got}"
        | .edges _ ps =>
          -- batch: ok iff no pair (taken in order, on the growing graph) would cycle
          let final := realUserStep st op ["res", "cycle"]
          let allOk := ps.length == 0 || (
            let rec chk (es : List Edge) : List (Nat × Nat) → Bool
              | [] => true
              | (x, y) :: rest =>
                let g' : Dag := ⟨st.1.length, es⟩
                match findEdge g' x y with
                | some i => chk (es.set i ⟨x, y, .logic⟩) rest
                | none => if hasPath g' y x then false else chk (es ++ [⟨x, y, .logic⟩]) rest
            chk st.2 ps)
          let gotOk := (r[1]?.getD "") == "oks"
          let _ := final
          if allOk != gotOk then c16 := false; c16what := s!"batch want-ok={allOk} got={" ".intercalate (r.drop 1)}"
        | _ => pure ()
        st := realUserStep st op r
      decls := st.1
      userE := st.2
      if !light then
        a := a.prop id "C16" ("builder answers " ++ c16what) c16
        a := a.prop id "C16" "pairs unique" (simpleB ⟨decls.length, userE⟩)
      let realG : Dag := ⟨bo.n, bo.edges⟩
      let userG : Dag := ⟨decls.length, userE⟩
      -- C16 "the most recently given kind wins" / "leave those edges intact": the accepted edges,
      -- replayed from the builder's own answers with the kind of the LAST call per pair, are the
      -- prefix of the built graph's edge list
      a := a.prop id "C16" "accepted edges with most recent kinds are in the built graph" (bo.edges.take userE.length == userE)
      -- the two quadratic-in-path-queries predicates are skipped on the large growth-series graphs
      -- (C18 cases); every other case is far below the threshold
      if bo.n ≤ 34 then
        a := a.prop id "C11" "built sound" (builtSoundB decls userE realG)
        a := a.prop id "C12" "direction/non-redundant" (builtOrderB decls userE realG bo.ranks)
      a := a.prop id "C06" "data edges only between conflicts" ((realG.edges.drop userE.length).all (fun e => e.kind == .data && conflict (declOf decls e.src) (declOf decls e.tgt)))
      a := a.prop id "C13" "ranks = longest chain" (bo.ranks == longestChains userG)
      a := a.prop id "C18" "pops <= n^2+n" (decide (bo.pops ≤ bo.n * bo.n + bo.n))
      a := a.prop id "C18" "path checks <= n^2" (decide (bo.checks ≤ bo.n * bo.n))
      -- C01/C02/C14 structure facts: the scheduling structures describe the built graph
      a := a.prop id "C14" "struct = graph edges" (bo.struct == bo.edges && bo.structRev == (Dag.flip realG).edges && bo.nodes == [bo.n, bo.n])
      a := a.prop id "C01" "incoming/outgoing = degrees"
        (bo.incoming == (List.range bo.n).map (fun v => (parents realG v).length)
         && bo.outgoing == (List.range bo.n).map (fun v => (children realG v).length))
    | "eqwith" :: rest => eqPert := (kv rest "pert").getD ""
    | "eqres" :: r :: rest =>
      let (b1, _) := modelOps ops
      let (b2, _) := modelOps ops2
      match build b1, build b2 with
      | some G1, some G2 =>
        a := a.cmp id "B-eq" s!"eq pert={eqPert}" (toString (eqGraph G1 G2)) r
        -- C12: equal iff the accepted builder states are equal (real answers)
        let st1 := (ops.zip ress).foldl (fun st p => realUserStep st p.1 p.2) (([], []) : List FnDecl × List Edge)
        let st2 := (ops2.zip ress2).foldl (fun st p => realUserStep st p.1 p.2) (([], []) : List FnDecl × List Edge)
        a := a.prop id "C12" s!"== iff same accepted calls (pert={eqPert})" ((r == "true") == (st1 == st2))
        if r == "true" then a := a.prop id "C12" "equal graphs have equal ranks" ((kv rest "ranks_eq") == some "true")
      | _, _ => a := a.cmp id "B-eq" "eq build" "panic" r
    | "seq" :: rest =>
      match built with
      | none => pure ()
      | some bo =>
        let realG : Dag := ⟨bo.n, bo.edges⟩
        match modelG with
        | some G =>
          a := a.cmp id "T-seq" "iter" (natsText G.iter) (natsText (kvCsv rest "iter"))
          a := a.cmp id "T-seq" "iter_rev" (natsText G.iterRev) (natsText (kvCsv rest "iter_rev"))
          a := a.cmp id "T-seq" "toposort" (natsText G.toposort) (natsText (kvCsv rest "toposort"))
          a := a.cmp id "T-seq" "map" (natsText G.visitOrder) (natsText (kvCsv rest "map"))
          a := a.cmp id "T-seq" "fold" (natsText G.visitOrder) (natsText (kvCsv rest "fold"))
          a := a.cmp id "T-seq" "for_each" (natsText G.visitOrder) (natsText (kvCsv rest "for_each"))
          a := a.cmp id "T-seq" "insertion" (natsText G.iterInsertion) (natsText (kvCsv rest "insertion"))
        | none => pure ()
        for k in ["iter", "toposort", "map", "fold", "for_each"] do
          a := a.prop id "C14" k (topoOrderB realG (kvCsv rest k))
        a := a.prop id "C14" "iter_rev" (topoOrderB realG.flip (kvCsv rest "iter_rev"))
        a := a.prop id "C14" "insertion" (kvCsv rest "insertion" == List.range bo.n && kvCsv rest "insertion_mut" == List.range bo.n
              && kvCsv rest "insertion_idx" == (List.range bo.n).map (fun i => i * 1000 + i))
    | "tryseq" :: rest =>
      match built, modelG with
      | some bo, some G =>
        let fails := kvCsv rest "fails"
        let seen := kvCsv rest "seen"
        let err := (kv rest "err").bind (·.toNat?)
        let r := tryVisit G.visitOrder fails
        a := a.cmp id "T-seq" ("try " ++ (kv rest "kind").getD "") (natsText r.1 ++ "/" ++ toString r.2) (natsText seen ++ "/" ++ toString err)
        -- C14 (real): `seen` is a prefix of a topological order, stops at the first failing id
        let realG : Dag := ⟨bo.n, bo.edges⟩
        let okPrefix := seen.all (fun v => (parents realG v).all (fun p => decide (idxOf seen p < idxOf seen v)))
        let stops := match err with
          | some e => seen.getLast? == some e && (seen.dropLast).all (fun v => decide (v ∉ fails)) && decide (e ∈ fails)
          | none => seen.all (fun v => decide (v ∉ fails)) && seen.length == bo.n
        a := a.prop id "C14" ("try " ++ (kv rest "kind").getD "") (okPrefix && stops && seen.eraseDups.length == seen.length)
      | _, _ => pure ()
    | "ginfo" :: "panic" :: _ =>
      a := a.cmp id "G-info" "from_graph" "ok" "panic"
      a := a.prop id "C17" "from_graph panics" false
    | "ginfo" :: rest =>
      match built with
      | none => pure ()
      | some bo =>
        let realG : Dag := ⟨bo.n, bo.edges⟩
        let f := fun (i : Nat) (_ : FnDecl) => i * 7 + 3
        match modelG.bind (fun G => GraphInfo.fromGraph G f) with
        | some gi =>
          a := a.cmp id "G-info" "nodes" (natsText gi.nodes) (natsText (kvCsv rest "nodes"))
          a := a.cmp id "G-info" "edges" (edgesText gi.edges) ((kv rest "edges").getD "")
          a := a.cmp id "G-info" "iter" (natsText (gi.iter.map (fun i => i * 7 + 3))) (natsText (kvCsv rest "iter"))
          a := a.cmp id "G-info" "iter_rev" (natsText (gi.iterRev.map (fun i => i * 7 + 3))) (natsText (kvCsv rest "iter_rev"))
          let s := gi.ser
          a := a.cmp id "G-info" "yaml_nodes" (natsText s.1) (natsText (kvCsv rest "yaml_nodes"))
          a := a.cmp id "G-info" "yaml_edges" (edgesText (GraphInfo.deser s).edges) ((kv rest "yaml_edges").getD "")
          a := a.cmp id "G-info" "roundtrip" (toString (GraphInfo.deser s == gi)) ((kv rest "roundtrip_eq").getD "")
        | none => if !lightCase then a := a.cmp id "G-info" "from_graph" "panic" "ok"
        let nodes := kvCsv rest "nodes"
        let unmap := fun (l : List Nat) => l.map (fun x => (x - 3) / 7)
        a := a.prop id "C17" "nodes mapped in insertion order" (nodes == (List.range bo.n).map (fun i => i * 7 + 3))
        a := a.prop id "C17" "edges with kinds incl. data" (parseEdges ((kv rest "edges").getD "") == bo.edges)
        a := a.prop id "C17" "roundtrip" ((kv rest "roundtrip_eq") == some "true" && kvCsv rest "back_nodes" == nodes
              && parseEdges ((kv rest "back_edges").getD "") == bo.edges)
        a := a.prop id "C17" "iter topological" (topoOrderB realG (unmap (kvCsv rest "iter")))
        a := a.prop id "C17" "iter_rev reverse topological" (topoOrderB realG.flip (unmap (kvCsv rest "iter_rev")))
    | "session" :: rest =>
      inSession := true; started := false; mons := #[]; runCfgs := #[]; nSessions := nSessions + 1
      sessCoop := (kv rest "coop") == some "1"
      a := { a with ctx := if (kv rest "k") == some "2" then "pair" else if nSessions > 1 then "hist" else "first" }
    | "run" :: _ :: rest => runCfgs := runCfgs.push (parseRunCfg rest)
    | "endsession" :: _ =>
      inSession := false
      a := { a with ctx := "build" }
    | "ev" :: r :: rest =>
      if inSession then
        match built with
        | none => pure ()
        | some bo =>
          if !started then
            started := true
            mons := runCfgs.map (fun rc =>
              let c := mkCfg rc ⟨bo.n, bo.struct⟩ ⟨bo.n, bo.structRev⟩ bo.incoming bo.outgoing
              { cfg := c, rc := rc, s := init c, ss := sinit c, coop := sessCoop })
          let ri := r.toNat?.getD 0
          nEvents := nEvents + 1
          match mons[ri]? with
          | none => pure ()
          | some m =>
            if m.active then
              let userD : Dag := ⟨decls.length, userE⟩
              let builtD : Dag := ⟨bo.n, bo.edges⟩
              -- a signal sent while the call is being polled (from inside a gate) is not at a quiescent point
              let (a', m') := if m.rc.isStream then monStream id decls userD a m t
                              else monFut id decls userD builtD a m t
              a := a'
              mons := mons.set! ri { m' with nEv := m'.nEv + 1 }
    | "do" :: acts =>
      -- a mid-poll signal (`open:…:intr`) is not at a quiescent point: C08's start bound is then
      -- stated for hand-outs (hook events), not closure invocations (DESIGN 7.4)
      if acts.any (fun x => x.endsWith ":intr") then
        mons := mons.map (fun m => { m with intrQuiescent := false })
    | _ => pure ()
  let _ := builtPanic
  let facets := " ".intercalate (a.facets.map (fun p => s!"{p.1}={p.2}"))
  let props := " ".intercalate (a.props.map (fun p => s!"{p.1}={p.2}"))
  return a.out.push s!"done id={id} sessions={nSessions} events={nEvents} n={(built.map (·.n)).getD 0} edges={(built.map (·.edges.length)).getD 0} facets[{facets}] props[{props}]"

partial def loop (h : IO.FS.Stream) (cur : Array String) : IO Unit := do
  let line ← h.getLine
  if line.isEmpty then
    if !cur.isEmpty then
      for o in checkCase cur do IO.println o
    return ()
  let l := stripNl line
  if l.startsWith "case " then
    if !cur.isEmpty then
      for o in checkCase cur do IO.println o
    loop h #[l]
  else if l == "end" then
    for o in checkCase cur do IO.println o
    loop h #[]
  else
    loop h (if cur.isEmpty then cur else cur.push l)

def main : IO Unit := do
  loop (← IO.getStdin) #[]
