-- Root of the `FnGraphVerif` library: the executable model (import-free).
import FnGraphVerif.Model.Graph
import FnGraphVerif.Model.Builder
import FnGraphVerif.Model.RankCalc
import FnGraphVerif.Model.Augment
import FnGraphVerif.Model.Build
import FnGraphVerif.Model.Topo
import FnGraphVerif.Model.Seq
import FnGraphVerif.Model.GraphInfo
import FnGraphVerif.Model.Interrupt
import FnGraphVerif.Model.Proto
import FnGraphVerif.Model.Settle
import FnGraphVerif.Model.StreamPoll
import FnGraphVerif.Model.Spec
import FnGraphVerif.Model.Monitor
import FnGraphVerif.Model.StreamMicro
